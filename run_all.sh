#!/bin/bash
# runs every check's quick (or given) tier once; prints a one-line summary per property
tier=${1:-quick}
cd "$(dirname "$0")"
for p in $(python3 -c "import json;print(' '.join(c['property_id'] for c in json.load(open('MANIFEST.json'))['checks']))"); do
  s=$(date +%s)
  out=$(./check $p --tier $tier 2>&1); rc=$?
  echo "$p rc=$rc $(( $(date +%s)-s ))s $(echo "$out" | tail -1 | cut -c1-200)"
done
