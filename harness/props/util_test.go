package props

import (
	"fmt"

	sdk "github.com/cosmos/cosmos-sdk/types"
	goattypes "github.com/goatnetwork/goat/x/goat/types"
	"verif/harness/world"
)

// decodeEthBlockTx decodes a raw transaction and returns its execution-block message (if it is one).
func decodeEthBlockTx(n *world.Node, raw []byte) (sdk.Tx, *goattypes.MsgNewEthBlock, error) {
	tx, err := n.TxCfg.TxDecoder()(raw)
	if err != nil {
		return nil, nil, err
	}
	msgs := tx.GetMsgs()
	if len(msgs) != 1 {
		return tx, nil, fmt.Errorf("%d messages", len(msgs))
	}
	m, ok := msgs[0].(*goattypes.MsgNewEthBlock)
	if !ok {
		return tx, nil, fmt.Errorf("not an execution-block message: %T", msgs[0])
	}
	return tx, m, nil
}
