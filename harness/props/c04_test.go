package props

// C04 — Merkle inclusion proofs are sound and position-binding.

import (
	"bytes"
	"crypto/sha256"
	"encoding/binary"
	"fmt"
	"strings"
	"testing"

	bitcointypes "github.com/goatnetwork/goat/x/bitcoin/types"
	"pgregory.net/rapid"
	"verif/harness/world"
)

// refMerkle is the reference written from the statement: sizes, fold steered
// by the position bits, and position < 2^(path length).
func refMerkle(leaf, root, path []byte, pos uint32) bool {
	if len(leaf) != 32 || len(root) != 32 || len(path)%32 != 0 {
		return false
	}
	n := len(path) / 32
	if n < 32 && uint64(pos) >= uint64(1)<<uint(n) {
		return false
	}
	cur := leaf
	for i := 0; i < n; i++ {
		node := path[i*32 : (i+1)*32]
		var buf []byte
		if (pos>>uint(i))&1 == 0 {
			buf = append(append(buf, cur...), node...)
		} else {
			buf = append(append(buf, node...), cur...)
		}
		a := sha256.Sum256(buf)
		b := sha256.Sum256(a[:])
		cur = b[:]
	}
	return bytes.Equal(cur, root)
}

// MerkleCase is a data-only description of one claim against a tree.
type MerkleCase struct {
	N        int    `json:"n"`        // leaves in the tree
	Seed     uint64 `json:"seed"`     // leaf content seed
	X        int    `json:"x"`        // presented leaf (mod N)
	PosKind  int    `json:"pos_kind"` // 0 true, 1 +1, 2 -1, 3 alias p+j*2^d, 4 bit flip, 5 random, 6 p+j*2^len(path)
	PosArg   uint32 `json:"pos_arg"`
	PathKind int    `json:"path_kind"` // 0 genuine, 1 truncated, 2 extended, 3 swapped, 4 bit flip, 5 other leaf's path, 6 ragged, 7 empty
	PathArg  int    `json:"path_arg"`
	SizeKind int    `json:"size_kind"` // 0 ok, 1 leaf 31, 2 leaf 33, 3 root 31, 4 root 33, 5 root of another tree
}

func leavesFor(n int, seed uint64) [][]byte {
	out := make([][]byte, n)
	for i := range out {
		var b [16]byte
		binary.LittleEndian.PutUint64(b[:8], seed)
		binary.LittleEndian.PutUint64(b[8:], uint64(i))
		h := sha256.Sum256(b[:])
		out[i] = h[:]
	}
	return out
}

type merkleClaim struct {
	tree *world.MerkleTree
	x    int
	leaf []byte
	root []byte
	path []byte
	pos  uint32
}

func (c MerkleCase) resolve() merkleClaim {
	n := c.N
	if n < 1 {
		n = 1
	}
	tree := world.NewMerkleTree(leavesFor(n, c.Seed))
	x := ((c.X % n) + n) % n
	d := tree.Depth()
	path := tree.Path(x)
	switch c.PathKind {
	case 1:
		if k := len(path) / 32; k > 0 {
			path = path[:32*(abs(c.PathArg)%k)]
		}
	case 2:
		ext := sha256.Sum256([]byte{byte(c.PathArg)})
		path = append(append([]byte{}, path...), ext[:]...)
	case 3:
		if k := len(path) / 32; k > 1 {
			i := abs(c.PathArg) % k
			j := (i + 1) % k
			p := append([]byte{}, path...)
			copy(p[i*32:(i+1)*32], path[j*32:(j+1)*32])
			copy(p[j*32:(j+1)*32], path[i*32:(i+1)*32])
			path = p
		}
	case 4:
		if len(path) > 0 {
			p := append([]byte{}, path...)
			bit := abs(c.PathArg) % (len(p) * 8)
			p[bit/8] ^= 1 << uint(bit%8)
			path = p
		}
	case 5:
		path = tree.Path(abs(c.PathArg) % n)
	case 6:
		path = append(append([]byte{}, path...), byte(c.PathArg))
	case 7:
		path = nil
	}
	pos := uint32(x)
	switch c.PosKind {
	case 1:
		pos = uint32(x) + 1
	case 2:
		pos = uint32(x) - 1
	case 3:
		if d < 32 {
			pos = uint32(x) + (c.PosArg%7+1)<<uint(d)
		}
	case 4:
		pos = uint32(x) ^ (1 << (c.PosArg % 32))
	case 5:
		pos = c.PosArg
	case 6:
		if k := len(path) / 32; k < 32 {
			pos = uint32(x) + (c.PosArg%7+1)<<uint(k)
		}
	}
	leaf := tree.Levels[0][x]
	root := tree.Root()
	switch c.SizeKind {
	case 1:
		leaf = leaf[:31]
	case 2:
		leaf = append(append([]byte{}, leaf...), 0)
	case 3:
		root = root[:31]
	case 4:
		root = append(append([]byte{}, root...), 0)
	case 5:
		root = world.NewMerkleTree(leavesFor(n, c.Seed+1)).Root()
	}
	return merkleClaim{tree: tree, x: x, leaf: leaf, root: root, path: path, pos: pos}
}

func abs(x int) int {
	if x < 0 {
		return -x
	}
	return x
}

func genMerkleCase(t *rapid.T) MerkleCase {
	sizes := rapid.OneOf(rapid.IntRange(1, 20), rapid.IntRange(1, 300), rapid.SampledFrom([]int{1, 2, 3, 4, 5, 7, 8, 9, 15, 16, 17, 31, 32, 33, 64, 65, 255, 256, 257}))
	c := MerkleCase{
		N:    sizes.Draw(t, "n"),
		Seed: rapid.Uint64Range(0, 1<<20).Draw(t, "seed"),
		X:    rapid.IntRange(0, 299).Draw(t, "x"),
	}
	// position-0 leaf (the coinbase) is the case the statement singles out
	if rapid.IntRange(0, 3).Draw(t, "coinbase") == 0 {
		c.X = 0
	}
	c.PosKind = rapid.SampledFrom([]int{0, 0, 1, 2, 3, 3, 4, 5, 6, 6}).Draw(t, "posKind")
	c.PosArg = rapid.Uint32().Draw(t, "posArg")
	c.PathKind = rapid.SampledFrom([]int{0, 0, 0, 0, 1, 2, 3, 4, 5, 6, 7}).Draw(t, "pathKind")
	c.PathArg = rapid.IntRange(0, 1<<16).Draw(t, "pathArg")
	c.SizeKind = rapid.SampledFrom([]int{0, 0, 0, 0, 0, 0, 0, 0, 1, 2, 3, 4, 5}).Draw(t, "sizeKind")
	return c
}

// runMerkleCase checks three things on one claim:
//  1. impl == reference (differential);
//  2. soundness: accepted against the true root => the leaf occupies that position;
//  3. completeness: the genuine (leaf, position, path) is accepted.
func runMerkleCase(c MerkleCase) Outcome {
	m := c.resolve()
	got := bitcointypes.VerifyMerkelProof(m.leaf, m.root, m.path, m.pos)
	want := refMerkle(m.leaf, m.root, m.path, m.pos)
	o := Outcome{
		Classes:    []string{fmt.Sprintf("pos%d/path%d/size%d", c.PosKind, c.PathKind, c.SizeKind)},
		NonTrivial: (len(m.path) >= 32 && m.pos != uint32(m.x)) || c.PathKind != 0,
	}
	if want {
		o.Classes = append(o.Classes, "ref-accepts")
	}
	trueRoot := c.SizeKind == 0
	if got && trueRoot {
		// soundness against the tree, independent of the reference fold
		occ := m.tree.Occupant(uint64(m.pos))
		if len(m.path)/32 != m.tree.Depth() || occ != m.x {
			sig := "position-not-occupied"
			if len(m.path)/32 < 32 && uint64(m.pos) >= uint64(1)<<uint(len(m.path)/32) {
				sig = "position-beyond-path-length"
			}
			o.Fail = failf("soundness", sig, "leaf %d of %d accepted at position %d with a %d-node path (depth %d, occupant %d)",
				m.x, m.tree.N(), m.pos, len(m.path)/32, m.tree.Depth(), occ)
			return o
		}
	}
	if got != want {
		sig := "differs-from-reference"
		if got && len(m.path)/32 < 32 && uint64(m.pos) >= uint64(1)<<uint(len(m.path)/32) {
			sig = "position-beyond-path-length"
		}
		o.Fail = failf("differential", sig, "impl=%v reference=%v for leaf %d/%d pos=%d pathNodes=%d leafLen=%d rootLen=%d",
			got, want, m.x, m.tree.N(), m.pos, len(m.path)/32, len(m.leaf), len(m.root))
		return o
	}
	if c.PosKind == 0 && c.PathKind == 0 && c.SizeKind == 0 && !got {
		o.Fail = failf("completeness", "genuine-proof-rejected", "genuine proof of leaf %d/%d rejected", m.x, m.tree.N())
	}
	return o
}

func TestC04_Tree(t *testing.T) {
	RunProp(t, Prop[MerkleCase]{
		ID: "C04", Name: "tree", Quick: 300_000, Thor: 12_000_000,
		Gen: genMerkleCase, Run: runMerkleCase,
		Rule: "trees of 1..300 leaves x presented leaf x claimed position (true, +-1, alias p+j*2^depth, bit flip, random, p+j*2^len(path)) x path (genuine, truncated, extended, swapped, bit-flipped, other leaf's, ragged, empty) x size faults; non-trivial = path length >= 1 and claimed position != true position, or a mutated path; distinct by case JSON",
	})
}

// RawMerkleCase feeds arbitrary byte strings.
type RawMerkleCase struct {
	Leaf []byte `json:"leaf"`
	Root []byte `json:"root"`
	Path []byte `json:"path"`
	Pos  uint32 `json:"pos"`
	Fix  bool   `json:"fix"` // recompute root so that the reference accepts (when sizes allow)
}

func genRawMerkle(t *rapid.T) RawMerkleCase {
	lens := rapid.SampledFrom([]int{32, 32, 32, 32, 31, 33, 0, 64})
	c := RawMerkleCase{
		Pos: rapid.OneOf(rapid.Uint32Range(0, 40), rapid.Uint32()).Draw(t, "pos"),
		Fix: rapid.Bool().Draw(t, "fix"),
	}
	ll := lens.Draw(t, "leafLen")
	c.Leaf = rapid.SliceOfN(rapid.Byte(), ll, ll).Draw(t, "leaf")
	c.Root = rapid.SliceOfN(rapid.Byte(), 0, 40).Draw(t, "root")
	if rapid.IntRange(0, 3).Draw(t, "root32") != 0 {
		c.Root = append(c.Root, make([]byte, 32)...)[:32]
	}
	nodes := rapid.IntRange(0, 36).Draw(t, "nodes")
	c.Path = rapid.SliceOfN(rapid.Byte(), nodes*32, nodes*32).Draw(t, "path")
	if rapid.IntRange(0, 7).Draw(t, "ragged") == 0 {
		c.Path = append(c.Path, 1)
	}
	return c
}

func runRawMerkle(c RawMerkleCase) Outcome {
	leaf := c.Leaf
	root := c.Root
	if c.Fix && len(leaf) == 32 && len(c.Path)%32 == 0 {
		// compute the root this (leaf, path, low position bits) folds to
		cur := leaf
		for i := 0; i < len(c.Path)/32; i++ {
			node := c.Path[i*32 : (i+1)*32]
			var buf []byte
			if (c.Pos>>uint(i))&1 == 0 {
				buf = append(append(buf, cur...), node...)
			} else {
				buf = append(append(buf, node...), cur...)
			}
			cur = world.DSha(buf)
		}
		root = cur
	}
	got := bitcointypes.VerifyMerkelProof(leaf, root, c.Path, c.Pos)
	want := refMerkle(leaf, root, c.Path, c.Pos)
	o := Outcome{Classes: []string{fmt.Sprintf("fix=%v/want=%v", c.Fix, want)}, NonTrivial: c.Fix && len(c.Path) >= 32}
	if got != want {
		sig := "differs-from-reference"
		if got && len(c.Path)/32 < 32 && uint64(c.Pos) >= uint64(1)<<uint(len(c.Path)/32) {
			sig = "position-beyond-path-length"
		}
		o.Fail = failf("differential", sig, "impl=%v reference=%v leafLen=%d rootLen=%d pathLen=%d pos=%d", got, want, len(leaf), len(root), len(c.Path), c.Pos)
	}
	return o
}

func TestC04_Raw(t *testing.T) {
	RunProp(t, Prop[RawMerkleCase]{
		ID: "C04", Name: "raw", Quick: 100_000, Thor: 4_000_000,
		Gen: genRawMerkle, Run: runRawMerkle,
		Rule: "arbitrary byte strings for leaf/root/path (lengths 0,31,32,33,64; 0..36 nodes; ragged) x 32-bit positions, half of them with the root recomputed so the fold matches; non-trivial = fold matches and path length >= 1",
	})
}

// ExhMerkleCase enumerates small trees completely.
type ExhMerkleCase struct {
	N int `json:"n"`
}

func runExhMerkle(c ExhMerkleCase) Outcome {
	tree := world.NewMerkleTree(leavesFor(c.N, 7))
	d := tree.Depth()
	o := Outcome{Classes: []string{fmt.Sprintf("n=%d", c.N)}, NonTrivial: true, Key: fmt.Sprintf("n=%d", c.N)}
	limit := uint32(1) << uint(d+2)
	for x := 0; x < c.N; x++ {
		for y := 0; y < c.N; y++ { // path of leaf y presented for leaf x
			path := tree.Path(y)
			for q := uint32(0); q < limit; q++ {
				o.Evals++
				got := bitcointypes.VerifyMerkelProof(tree.Levels[0][x], tree.Root(), path, q)
				occ := tree.Occupant(uint64(q))
				mustAccept := x == y && q == uint32(x)
				mayAccept := occ == x
				if got && !mayAccept {
					sig := "position-not-occupied"
					if uint64(q) >= uint64(1)<<uint(d) {
						sig = "position-beyond-path-length"
					}
					o.Fail = failf("soundness", sig, "n=%d leaf %d (path of %d) accepted at position %d (occupant %d, depth %d)", c.N, x, y, q, occ, d)
					return o
				}
				if mustAccept && !got {
					o.Fail = failf("completeness", "genuine-proof-rejected", "n=%d leaf %d rejected at its own position", c.N, x)
					return o
				}
				if got != refMerkle(tree.Levels[0][x], tree.Root(), path, q) {
					o.Fail = failf("differential", "differs-from-reference", "n=%d x=%d y=%d q=%d", c.N, x, y, q)
					return o
				}
			}
		}
	}
	return o
}

func TestC04_Exhaustive(t *testing.T) {
	maxN := 9
	if tier() == "thorough" {
		maxN = 33
	}
	RunEnum(t, Prop[ExhMerkleCase]{
		ID: "C04", Name: "exhaustive", Run: runExhMerkle,
		Rule: fmt.Sprintf("bounded exhaustive: every tree size n<=%d, every presented leaf x, every leaf's genuine path y, every claimed position < 2^(depth+2)", maxN),
	}, func(yield func(ExhMerkleCase) bool) {
		for n := 1; n <= maxN; n++ {
			if !yield(ExhMerkleCase{N: n}) {
				return
			}
		}
	})
}

// The deposit path that relies on the proof verification: position and proof
// mutations only, decided by the deposit oracle (shared with C03).
func TestC04_DepositSlice(t *testing.T) {
	posMuts := []int{mutProofTrunc, mutProofExtend, mutProofSwap, mutProofBitFlip, mutPosNeighbour, mutPosAlias, mutPosRandom, mutDupMirror, mutCoinbaseLater, mutCoinbaseLater, mutTwinBadProof, mutTwinBadProof}
	RunProp(t, Prop[DepositCase]{
		ID: "C04", Name: "deposit-slice", Quick: 400, Thor: 12_000,
		Gen: func(t *rapid.T) DepositCase {
			c := genDepositCase(t)
			for i := range c.Blocks {
				// single-transaction and small blocks, coinbase deposits that are not yet mature
				if rapid.IntRange(0, 1).Draw(t, "coinbase") == 0 {
					c.Blocks[i].Pos = 0
					c.Blocks[i].NTx = rapid.SampledFrom([]int{1, 1, 2, 3, 4}).Draw(t, "ntx")
				}
			}
			for i := range c.Steps {
				if rapid.IntRange(0, 4).Draw(t, "plain") > 0 {
					c.Steps[i].Mut = rapid.SampledFrom(posMuts).Draw(t, "posMut")
				} else {
					c.Steps[i].Mut = 0
				}
			}
			return c
		},
		Run:  runDepositHandler,
		Rule: "the deposit path that relies on the verification: model blocks (1-33 transactions, coinbase deposits below and above the maturity depth) with the claimed position and the proof mutated (neighbour, alias p+k*2^depth, random position, truncated/extended/permuted/bit-flipped proof, the same deposit under its mirror position, the block's immature coinbase paying the same script as a later item of the batch, the transaction's second deposit output with a damaged proof or alias position right after the first was verified) through the registered NewDeposits handler; oracle = deposit oracle of C03 (a coinbase presented under another position must be rejected)",
	})
}

// The withdrawal path that relies on the proof verification: FinalizeWithdrawal with the claimed transaction id,
// position and proof varied, decided by the withdrawal state machine (shared with C05); only disagreements about
// finalisation belong to this property.
func TestC04_WithdrawalSlice(t *testing.T) {
	RunProp(t, Prop[WdCase]{
		ID: "C04", Name: "withdrawal-slice", Quick: 240, Thor: 6000,
		Gen: func(t *rapid.T) WdCase {
			c := genWdCase(t)
			for i := range c.Blocks {
				tx := c.Blocks[i].Tx
				if tx == nil || i < 4 || rapid.IntRange(0, 1).Draw(t, "keep") == 0 {
					continue
				}
				// more finalisations: genuine ones and ones that name a foreign transaction id, another position or a damaged proof
				tx.Kind = "finalize"
				tx.Cand = rapid.SampledFrom([]int{0, 0, 1, 2, -1, -1, -2}).Draw(t, "cand")
				if rapid.IntRange(0, 2).Draw(t, "clean") == 0 {
					tx.Mined, tx.Pos, tx.Proof, tx.AtZero = 0, 0, 0, false
				} else {
					tx.Mined = rapid.SampledFrom([]int{0, 0, 0, 1, 2}).Draw(t, "mined")
					tx.Pos = rapid.IntRange(0, 3).Draw(t, "pos")
					tx.Proof = rapid.SampledFrom([]int{0, 0, 1, 2, 3, 3}).Draw(t, "proof")
					tx.AtZero = rapid.IntRange(0, 5).Draw(t, "atZero") == 0
				}
			}
			// one or two scripted endings: withdraw, process, fee-bump, then a finalisation that names one voted
			// candidate over the block and proof of the other one (or a genuine one)
			for k, n := 0, rapid.IntRange(1, 2).Draw(t, "endings"); k < n; k++ {
				pr := rapid.IntRange(0, 40).Draw(t, "endPid")
				c.Blocks = append(c.Blocks,
					WdBlock{DT: 5, Withdraws: []WdReq{{AddrKind: 0, Amount: 400_000, Price: 40}}},
					WdBlock{DT: 5, Tx: &WdTx{Kind: "process", Refs: []int{rapid.IntRange(0, 40).Draw(t, "endRef")}, OutMut: []int{0}, Bias: true}},
					WdBlock{DT: 5, Tx: &WdTx{Kind: "replace", PidRef: pr, FeeDelta: 1, Bias: true}},
					WdBlock{DT: 5, Tx: &WdTx{Kind: "finalize", PidRef: pr, Cand: rapid.IntRange(0, 1).Draw(t, "endCand"), Proof: rapid.SampledFrom([]int{3, 3, 0}).Draw(t, "endProof")}})
			}
			return c
		},
		Run: func(c WdCase) Outcome {
			o := runWdCase(c)
			if o.Fail != nil && !strings.Contains(o.Fail.Signature, "/finalize") && !strings.Contains(o.Fail.Signature, "paid") {
				o.Classes = append(o.Classes, "inner-oracle-failed")
				o.Fail = nil
			}
			return o
		},
		Rule: "withdrawal lifecycles (C05's world) with many finalisations: the claimed transaction id is a voted candidate or a foreign one, the block is voted / not voted / has another header, the position is true / 0 / alias / neighbour, the proof genuine / bit-flipped / empty, the transaction mined first in its block or not; a finalisation is accepted iff the claimed id is a voted candidate of that batch proven at its true position in a voted block, and the paid notice names exactly that transaction; non-trivial as in C05; evaluations count blocks",
	})
}
