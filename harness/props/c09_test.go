package props

// C09 — the execution head advances only by valid child blocks; engine faults commit nothing.

import (
	"bytes"
	"fmt"
	bitcointypes "github.com/goatnetwork/goat/x/bitcoin/types"
	"math/big"
	"testing"
	"time"

	abci "github.com/cometbft/cometbft/abci/types"
	"github.com/ethereum/go-ethereum/common"
	"github.com/ethereum/go-ethereum/core/types/goattypes"
	goatmodtypes "github.com/goatnetwork/goat/x/goat/types"
	"pgregory.net/rapid"
	"verif/harness/world"
)

// FaultSpec places one engine fault: Site names the call, Kind what the engine does.
type FaultSpec struct {
	Block int    `json:"block"`
	Site  string `json:"site"` // prepare-fcu | prepare-get | process-newpayload | end-newpayload | end-fcu
	Kind  int    `json:"kind"` // world.FaultKind
	// InProcess (EndBlock faults that abort the block): the block is executed again by the same process (the
	// uncommitted writes are discarded and a proposal round resets the block state) instead of after a restart
	InProcess bool `json:"in_process,omitempty"`
	// Pooled (faults while proposing): a valid relayer transaction sits in the node's mempool, so that what the SDK
	// falls back to when the proposal builder fails is not empty
	Pooled bool `json:"pooled,omitempty"`
}

// ChildSpec pushes an invalid child straight into FinalizeBlock.
type ChildSpec struct {
	Block int `json:"block"`
	Kind  int `json:"kind"` // 1 wrong parent, 2 number+1, 3 number-1, 4 fee recipient/author mismatch, 5 blob gas, 6 stale beacon root, 7 nil payload, 8 other author
}

type EngineCase struct {
	Base   int         `json:"base"` // base history index
	Blocks int         `json:"blocks"`
	Faults []FaultSpec `json:"faults,omitempty"`
	Childs []ChildSpec `json:"childs,omitempty"`
	// ReimportAt > 0: before that block both chains are restarted from their exported state (no fault is placed on
	// the first block of the re-imported chain)
	ReimportAt int `json:"reimport_at,omitempty"`
}

var faultSites = []string{"prepare-fcu", "prepare-get", "process-newpayload", "end-newpayload", "end-fcu"}

func siteKinds(site string, withStall bool) []world.FaultKind {
	var k []world.FaultKind
	switch site {
	case "prepare-fcu":
		k = []world.FaultKind{world.FaultRPCError, world.FaultInvalid, world.FaultSyncing, world.FaultAccepted, world.FaultNilPayloadID}
	case "prepare-get":
		k = []world.FaultKind{world.FaultRPCError}
	default:
		k = []world.FaultKind{world.FaultRPCError, world.FaultInvalid, world.FaultSyncing, world.FaultAccepted}
	}
	if withStall && (site == "prepare-fcu" || site == "prepare-get") {
		k = append(k, world.FaultStall)
	}
	return k
}

type engWorld struct {
	sim, twin *world.Sim
	head      common.Hash
	parent    common.Hash
	fired     int
	beacon    []byte // reference: the recorded beacon root (hash of the consensus block that last advanced the head)
}

func (w *engWorld) recordedBeacon() ([]byte, error) {
	return w.sim.Node.App.GoatKeeper.BeaconRoot.Get(w.sim.Node.ReadCtx())
}

func basePlan(base, i int) world.BuildPlan {
	switch base % 3 {
	case 1:
		// refunds and claims keep the hand-over queues busy
		br := goattypes.BridgeRequests{Withdraws: []*goattypes.WithdrawalRequest{{Id: uint64(100 + i), Amount: 5000, TxPrice: 2, Address: fmt.Sprintf("garbage-%d", i)}}}
		lr := goattypes.LockingRequests{Claims: []*goattypes.ClaimRequest{{Id: uint64(500 + i), Validator: world.NewAccount(world.DomValidator, 0).EthAddr()}}}
		return world.BuildPlan{Requests: append(br.Encode(), lr.Encode()...), GasAmount: big.NewInt(int64(1000 + i))}
	case 2:
		lr := goattypes.LockingRequests{Unlocks: []*goattypes.UnlockRequest{{Id: uint64(700 + i), Validator: world.NewAccount(world.DomValidator, 0).EthAddr(), Token: common.Address{}, Amount: big.NewInt(1000)}}}
		return world.BuildPlan{Requests: lr.Encode(), GasAmount: big.NewInt(7), UserTxs: [][]byte{{0x02, byte(i)}}}
	}
	return world.BuildPlan{}
}

func newEngWorld() (*engWorld, error) {
	spec := world.DefaultSpec(2, 2)
	spec.LockingParams.UnlockDuration = 7 * time.Second
	a, err := world.NewSim(spec)
	if err != nil {
		return nil, err
	}
	b, err := world.NewSim(spec)
	if err != nil {
		a.Close()
		return nil, err
	}
	w := &engWorld{sim: a, twin: b, head: world.GenesisELHash}
	if w.beacon, err = w.recordedBeacon(); err != nil {
		w.close()
		return nil, err
	}
	return w, nil
}

func (w *engWorld) close() { w.sim.Close(); w.twin.Close() }

func sameResponse(a, b *abci.ResponseFinalizeBlock) string {
	if !bytes.Equal(a.AppHash, b.AppHash) {
		return fmt.Sprintf("app hash %X vs %X", a.AppHash, b.AppHash)
	}
	if len(a.TxResults) != len(b.TxResults) {
		return "number of tx results"
	}
	for i := range a.TxResults {
		x, y := a.TxResults[i], b.TxResults[i]
		if x.Code != y.Code || x.GasUsed != y.GasUsed || x.GasWanted != y.GasWanted || !bytes.Equal(x.Data, y.Data) || x.Codespace != y.Codespace {
			return fmt.Sprintf("tx %d result (%d,%d) vs (%d,%d)", i, x.Code, x.GasUsed, y.Code, y.GasUsed)
		}
	}
	if len(a.ValidatorUpdates) != len(b.ValidatorUpdates) {
		return "validator updates"
	}
	return ""
}

func (w *engWorld) tip() (common.Hash, uint64, error) {
	var resp goatmodtypes.QueryEthBlockTipResponse
	if err := w.sim.Node.Query("/goat.goat.v1.Query/EthBlockTip", &goatmodtypes.QueryEthBlockTipRequest{}, &resp); err != nil {
		return common.Hash{}, 0, err
	}
	return common.BytesToHash(resp.Block.BlockHash), resp.Block.BlockNumber, nil
}

func runEngineCase(c EngineCase) Outcome {
	o := Outcome{Classes: []string{fmt.Sprintf("base=%d", c.Base%3)}}
	w, err := newEngWorld()
	if err != nil {
		o.Fail = failf("fixture", "fixture-failed", "%v", err)
		return o
	}
	defer func() { w.close() }()
	nblocks := c.Blocks
	if nblocks < 3 {
		nblocks = 3
	}
	faultsAt := map[int][]FaultSpec{}
	for _, f := range c.Faults {
		faultsAt[abs(f.Block)%nblocks] = append(faultsAt[abs(f.Block)%nblocks], f)
	}
	childAt := map[int]ChildSpec{}
	for _, ch := range c.Childs {
		childAt[abs(ch.Block)%nblocks] = ch
	}
	var headNumber uint64
	for i := 0; i < nblocks; i++ {
		if c.ReimportAt > 0 && i == c.ReimportAt%nblocks && i > 0 {
			for _, s := range []*world.Sim{w.sim, w.twin} {
				if err := s.Reimport(); err != nil {
					o.Fail = failf("re-import", "re-import-failed", "before block %d: %v", i, err)
					return o
				}
			}
			delete(faultsAt, i)
			o.Classes = append(o.Classes, "reimported")
			if got, err := w.recordedBeacon(); err != nil || !bytes.Equal(got, w.beacon) {
				o.Fail = failf("beacon-root", "beacon-root-mismatch", "after the re-import before block %d the recorded beacon root is %x (%v), reference %x", i, got, err, w.beacon)
				return o
			}
		}
		plan := basePlan(c.Base, i)
		proposer := i % 2
		blk := w.sim.Chain.NextBlock(5*time.Second, proposer, nil, nil)
		tblk := w.twin.Chain.NextBlock(5*time.Second, proposer, nil, nil)
		node := w.sim.Node
		propKey := w.sim.Keys[string(blk.Proposer)]
		eo := world.EthBlockOpts{Plan: plan}
		invalidChild := false
		if ch, ok := childAt[i]; ok {
			invalidChild = true
			o.Classes = append(o.Classes, fmt.Sprintf("invalid-child-%d", ch.Kind%9))
			other := w.sim.Keys[string(world.NewAccount(world.DomValidator, 1-proposer).Addr())]
			switch ch.Kind % 9 {
			case 1:
				eo.MutateEnv = func(a *world.BuildAttrs) { a.Parent = w.parent }
				if w.parent == (common.Hash{}) || w.parent == w.head {
					invalidChild = false
					eo.MutateEnv = nil
				}
			case 2:
				eo.Mutate = func(m *goatmodtypes.MsgNewEthBlock) { m.Payload.BlockNumber++ }
			case 3:
				eo.Mutate = func(m *goatmodtypes.MsgNewEthBlock) { m.Payload.BlockNumber-- }
			case 4:
				eo.MutateEnv = func(a *world.BuildAttrs) { a.FeeRecipient = other.EthAddr() }
			case 5:
				eo.Plan.BlobGas = 131072
			case 6:
				eo.MutateEnv = func(a *world.BuildAttrs) { a.Beacon = common.BytesToHash(world.DSha([]byte("stale"))) }
				eo.Mutate = func(m *goatmodtypes.MsgNewEthBlock) { m.Payload.BeaconRoot = world.DSha([]byte("stale")) }
			case 7:
				eo.Mutate = func(m *goatmodtypes.MsgNewEthBlock) { m.Payload = nil }
			case 8:
				eo.Mutate = func(m *goatmodtypes.MsgNewEthBlock) { m.Proposer = other.Bech32() }
				eo.MutateEnv = func(a *world.BuildAttrs) { a.FeeRecipient = other.EthAddr() }
				eo.Signer = &other
			default:
				invalidChild = false
			}
		}
		ethRaw, ethMsg, err := node.BuildEthBlockTx(blk, propKey, eo)
		if err != nil {
			o.Fail = failf("fixture", "eth-tx-build-failed", "%v", err)
			return o
		}
		twinRaw, _, err := w.twin.Node.BuildEthBlockTx(tblk, propKey, eo)
		if err != nil || !bytes.Equal(twinRaw, ethRaw) {
			o.Fail = failf("fixture", "twin-diverged", "the fault-free twin built a different block (%v)", err)
			return o
		}
		txs := [][]byte{ethRaw}
		// ---- faults while proposing and checking ----
		endFaults := []world.Fault{}
		for _, f := range faultsAt[i] {
			kind := world.FaultKind(f.Kind)
			o.Classes = append(o.Classes, f.Site+"/"+kind.String())
			switch f.Site {
			case "prepare-fcu", "prepare-get":
				if string(blk.Proposer) != string(world.NewAccount(world.DomValidator, 0).Addr()) {
					continue // this node does not hold the proposer's key in this round
				}
				method := "fcu"
				if f.Site == "prepare-get" {
					method = "getPayload"
				}
				var reaped [][]byte // what CometBFT reaps from its own mempool and hands to PrepareProposal
				if f.Pooled {
					if rv, err := node.RelayerView(); err == nil {
						rp := world.NewAccount(world.DomRelayer, 0)
						if raw, err := node.Tx(rp, 0, world.TxOpts{}, &bitcointypes.MsgApproveCancellation{Proposer: rv.Proposer, Id: []uint64{940_000 + uint64(i)}}); err == nil {
							if resp, err := node.CheckTx(raw, false); err == nil && resp.Code == 0 {
								o.Classes = append(o.Classes, "pooled-tx")
								reaped = [][]byte{raw}
							}
						}
					}
				}
				node.Eng.SetPlan(plan)
				node.Eng.ArmFaults([]world.Fault{{Method: method, Nth: 0, Kind: kind}})
				pr, err := node.Prepare(blk.PrepareReq(reaped))
				node.Eng.ArmFaults(nil)
				w.fired++
				if err != nil {
					o.Fail = failf("no-crash", "prepare-failed", "%v", err)
					return o
				}
				pp, err := node.Process(blk.ProcessReq(pr.Txs))
				if err != nil {
					o.Fail = failf("no-crash", "process-failed", "%v", err)
					return o
				}
				if pp.Status == abci.ResponseProcessProposal_ACCEPT {
					o.Fail = failf("prepare-fault-yields-no-proposal", "proposal-built-despite-engine-fault", "block %d: %s/%s: PrepareProposal returned %d txs which ProcessProposal accepts", i, f.Site, kind, len(pr.Txs))
					return o
				}
			case "process-newpayload":
				node.Eng.ArmFaults([]world.Fault{{Method: "newPayload", Nth: 0, Kind: kind}})
				pp, err := node.Process(blk.ProcessReq(txs))
				node.Eng.ArmFaults(nil)
				w.fired++
				if err != nil {
					o.Fail = failf("no-crash", "process-failed", "%v", err)
					return o
				}
				if pp.Status == abci.ResponseProcessProposal_ACCEPT {
					o.Fail = failf("process-fault-rejects", "proposal-accepted-despite-engine-fault", "block %d: newPayload answered %s and the proposal was accepted", i, kind)
					return o
				}
			case "end-newpayload", "end-fcu":
				// EndBlock makes one call of each kind: only the first fault placed on it can fire
				method := map[string]string{"end-newpayload": "newPayload", "end-fcu": "fcu"}[f.Site]
				dup := false
				for _, e := range endFaults {
					if e.Method == method {
						dup = true
					}
				}
				if !dup {
					endFaults = append(endFaults, world.Fault{Method: method, Nth: 0, Kind: kind})
				}
			}
		}
		// ---- the fault-free twin executes the block ----
		tres, err := w.twin.Exec(tblk, txs, false)
		if err != nil {
			o.Fail = failf("block-processing", "twin-block-failed", "%v", err)
			return o
		}
		// ---- finalise on the node under test, possibly under EndBlock faults ----
		heightBefore := node.App.LastBlockHeight()
		hashBefore := append([]byte{}, node.App.LastCommitID().Hash...)
		tipBefore, _, _ := w.tip()
		mustFail := false
		for _, f := range endFaults {
			if f.Kind == world.FaultRPCError || f.Kind == world.FaultInvalid {
				mustFail = true
			}
		}
		retryInProcess := false
		for _, f := range faultsAt[i] {
			if f.InProcess && (f.Site == "end-newpayload" || f.Site == "end-fcu") {
				retryInProcess = true
			}
		}
		if len(endFaults) > 0 {
			node.Eng.ArmFaults(endFaults)
			node.Eng.TakeLog()
			resp, ferr := node.Finalize(blk.FinalizeReq(txs, w.sim.Chain.NextVals.Hash()))
			node.Eng.ArmFaults(nil)
			w.fired++
			if mustFail {
				if ferr == nil {
					o.Fail = failf("engine-fault-aborts-block", "block-finalised-despite-engine-fault", "block %d: the engine failed in EndBlock (%v) but FinalizeBlock returned a response (app hash %X)", i, endFaults, resp.AppHash)
					return o
				}
				if retryInProcess && heightBefore > 0 {
					// the same process executes the block again after the fault cleared
					if err := node.DiscardUncommitted(); err != nil {
						o.Fail = failf("retry", "discard-failed", "%v", err)
						return o
					}
					// an empty proposal is refused at once, without engine calls, but baseapp installs a fresh block state first
					if _, err := node.Process(blk.ProcessReq(nil)); err != nil {
						o.Fail = failf("retry", "process-failed", "%v", err)
						return o
					}
					o.Classes = append(o.Classes, "aborted+retried-in-process")
					goto retry
				}
				// CometBFT stops here; on restart the block is replayed
				n2, err := node.Restart()
				if err != nil {
					o.Fail = failf("restart", "restart-failed", "%v", err)
					return o
				}
				w.sim.Node, node = n2, n2
				if heightBefore == 0 {
					// nothing was ever committed: CometBFT's handshake runs InitChain again
					if _, err := node.InitChain(w.sim.Spec); err != nil {
						o.Fail = failf("restart", "initchain-replay-failed", "%v", err)
						return o
					}
				}
				if node.App.LastBlockHeight() != heightBefore || !bytes.Equal(node.App.LastCommitID().Hash, hashBefore) {
					o.Fail = failf("nothing-persists", "failed-block-left-traces", "block %d: after the failed FinalizeBlock and a restart the committed height/app hash changed (%d/%X -> %d/%X)", i, heightBefore, hashBefore, node.App.LastBlockHeight(), node.App.LastCommitID().Hash)
					return o
				}
				if tip, _, _ := w.tip(); tip != tipBefore {
					o.Fail = failf("nothing-persists", "head-moved-by-failed-block", "block %d: execution head moved although the block was not committed", i)
					return o
				}
				o.Classes = append(o.Classes, "aborted+replayed")
			} else if ferr != nil {
				o.Fail = failf("syncing-accepted-commit", "block-aborted-on-SYNCING-or-ACCEPTED", "block %d: engine answered %v in EndBlock and FinalizeBlock failed: %v", i, endFaults, ferr)
				return o
			} else {
				// committed under a tolerated answer
				if diff := sameResponse(resp, tres.Resp); diff != "" {
					o.Fail = failf("same-as-fault-free", "result-differs-from-fault-free-run", "block %d: %s", i, diff)
					return o
				}
				if err := node.Commit(); err != nil {
					o.Fail = failf("block-processing", "commit-failed", "%v", err)
					return o
				}
				if err := w.sim.Chain.Decide(blk, resp.ValidatorUpdates); err != nil {
					o.Fail = failf("block-processing", "updates-rejected", "%v", err)
					return o
				}
				if resp.TxResults[0].Code == 0 {
					if invalidChild {
						o.Fail = failf("only-valid-children", "invalid-child-became-head", "block %d: an invalid child (kind %d) was executed successfully", i, childAt[i].Kind%9)
						return o
					}
					w.parent, w.head, headNumber = w.head, common.BytesToHash(ethMsg.Payload.BlockHash), ethMsg.Payload.BlockNumber
					if !bytes.Equal(ethMsg.Payload.BeaconRoot, w.beacon) {
						o.Fail = failf("beacon-root", "head-with-stale-beacon-root", "block %d: the new head carries beacon root %x, the previous head-advancing consensus block is %x", i, ethMsg.Payload.BeaconRoot, w.beacon)
						return o
					}
					w.beacon = blk.Hash
				}
				goto committed
			}
		}
	retry:
		{
			res, err := w.sim.Exec(blk, txs, false)
			if err != nil {
				o.Fail = failf("block-processing", "block-failed", "block %d: %v", i, err)
				return o
			}
			if diff := sameResponse(res.Resp, tres.Resp); diff != "" {
				o.Fail = failf("same-as-fault-free", "result-differs-from-fault-free-run", "block %d (after %d faults): %s", i, len(faultsAt[i]), diff)
				return o
			}
			// engine log of the block: ... newPayload(head), forkchoice(head, safe = finalised = parent)
			log := res.EngLog
			ok0 := res.Resp.TxResults[0].Code == 0
			if invalidChild && ok0 {
				o.Fail = failf("only-valid-children", "invalid-child-became-head", "block %d: an invalid child (kind %d) was executed successfully", i, childAt[i].Kind%9)
				return o
			}
			if !invalidChild && !ok0 {
				o.Fail = failf("honest-message-succeeds", "honest-eth-message-failed", "block %d: %s", i, res.Resp.TxResults[0].Log)
				return o
			}
			if ok0 {
				w.parent = w.head
				w.head = common.BytesToHash(ethMsg.Payload.BlockHash)
				headNumber = ethMsg.Payload.BlockNumber
				if !bytes.Equal(ethMsg.Payload.BeaconRoot, w.beacon) {
					o.Fail = failf("beacon-root", "head-with-stale-beacon-root", "block %d: the new head carries beacon root %x, the previous head-advancing consensus block is %x", i, ethMsg.Payload.BeaconRoot, w.beacon)
					return o
				}
				w.beacon = blk.Hash
				if !bytes.Equal(ethMsg.Payload.ParentHash, w.parent[:]) || !bytes.Equal(ethMsg.Payload.FeeRecipient, blk.Proposer) || ethMsg.Payload.BlobGasUsed != 0 {
					o.Fail = failf("only-valid-children", "head-is-not-a-valid-child", "block %d: the new head is not a direct, blob-free child authored by the proposer", i)
					return o
				}
			}
			// the block's engine calls must end with forkchoice(head), preceded by newPayload(head). A request of an earlier,
			// cancelled ProcessProposal may reach the fake engine late (the client gave up, the server still answers), so
			// other newPayload entries in between are tolerated.
			fcAt := -1
			for k := len(log) - 1; k >= 0; k-- {
				if log[k].Method == "fcu" && !log[k].HasAttrs {
					fcAt = k
					break
				}
			}
			if fcAt < 0 {
				o.Fail = failf("engine-told-head", "engine-log-shape", "block %d: engine calls %v", i, log)
				return o
			}
			fc := log[fcAt]
			toldPayload := false
			var lastNP common.Hash
			for k := 0; k < fcAt; k++ {
				if log[k].Method == "newPayload" {
					lastNP = log[k].Hash
					if log[k].Hash == w.head {
						toldPayload = true
					}
				}
			}
			if !toldPayload || fc.Head != w.head {
				o.Fail = failf("engine-told-head", "engine-told-another-head", "block %d: engine told newPayload(%x) forkchoice(%x), recorded head %x", i, lastNP[:4], fc.Head[:4], w.head[:4])
				return o
			}
			if headNumber > 0 && (fc.Safe != w.parent || fc.Finalized != w.parent) {
				o.Fail = failf("engine-told-head", "safe-finalised-not-parent", "block %d: safe %x finalised %x, parent %x", i, fc.Safe[:4], fc.Finalized[:4], w.parent[:4])
				return o
			}
		}
	committed:
		tip, num, err := w.tip()
		if err != nil {
			o.Fail = failf("query", "query-failed", "%v", err)
			return o
		}
		if got, err := w.recordedBeacon(); err != nil || !bytes.Equal(got, w.beacon) {
			o.Fail = failf("beacon-root", "beacon-root-mismatch", "block %d: recorded beacon root %x (%v), reference %x", i, got, err, w.beacon)
			return o
		}
		if tip != w.head || num != headNumber {
			o.Fail = failf("head-model", "execution-head-mismatch", "block %d: Query/EthBlockTip %x #%d, reference %x #%d", i, tip[:4], num, w.head[:4], headNumber)
			return o
		}
		o.Evals++
	}
	o.NonTrivial = w.fired > 0 || len(c.Childs) > 0
	o.Key = fmt.Sprintf("%+v", c)
	return o
}

func TestC09_SingleFaults(t *testing.T) {
	thorough := tier() == "thorough"
	var all []EngineCase
	for base := 0; base < 3; base++ {
		for _, site := range faultSites {
			for _, k := range siteKinds(site, thorough) {
				for _, blk := range []int{2, 3} { // both proposers
					all = append(all, EngineCase{Base: base, Blocks: 6, Faults: []FaultSpec{{Block: blk, Site: site, Kind: int(k)}}})
					if site == "prepare-fcu" || site == "prepare-get" {
						all = append(all, EngineCase{Base: base, Blocks: 6, Faults: []FaultSpec{{Block: blk, Site: site, Kind: int(k), Pooled: true}}})
					}
					if (site == "end-newpayload" || site == "end-fcu") && (k == world.FaultRPCError || k == world.FaultInvalid) {
						all = append(all, EngineCase{Base: base, Blocks: 6, Faults: []FaultSpec{{Block: blk, Site: site, Kind: int(k), InProcess: true}}})
					}
				}
			}
		}
		for kind := 1; kind <= 8; kind++ {
			all = append(all, EngineCase{Base: base, Blocks: 5, Childs: []ChildSpec{{Block: 2 + kind%2, Kind: kind}}})
		}
		if thorough {
			// all pairs of (site, kind) in one history
			var singles []FaultSpec
			for _, site := range faultSites {
				for _, k := range siteKinds(site, false) {
					singles = append(singles, FaultSpec{Site: site, Kind: int(k)})
				}
			}
			for a := range singles {
				for b := range singles {
					fa, fb := singles[a], singles[b]
					fa.Block, fb.Block = 2, 4
					all = append(all, EngineCase{Base: base, Blocks: 7, Faults: []FaultSpec{fa, fb}})
				}
			}
		}
	}
	RunEnum(t, Prop[EngineCase]{
		ID: "C09", Name: "enumeration", Run: runEngineCase,
		Rule: "complete enumeration, on 3 base histories (empty blocks; refunds+claims; unlocks+user transactions) with alternating proposers: every single (site, kind) with site in {forkchoiceUpdated and getPayload while proposing, newPayload while checking, newPayload and forkchoiceUpdated in EndBlock} and kind in {RPC error, INVALID, SYNCING, ACCEPTED, missing payload id (+ stall beyond the deadline in the thorough tier)}, at blocks proposed by either validator; every invalid child kind (wrong parent, number +-1, fee recipient != author, blob gas, stale beacon root, nil payload, other author) pushed straight into FinalizeBlock; thorough adds all ordered pairs of faults; faults while proposing also with a valid relayer transaction in the mempool (what the SDK falls back to must not be acceptable either); oracles: a fault-free twin chain (byte-identical results after the fault clears), restart after a failed FinalizeBlock shows height/app hash/head unchanged (for EndBlock faults also the variant in which the same process executes the block again), head model, recorded beacon root = hash of the last head-advancing consensus block and carried by the next head, engine call log ending with newPayload(head), forkchoice(head, parent, parent)",
	}, func(yield func(EngineCase) bool) {
		for _, c := range all {
			if !yield(c) {
				return
			}
		}
	})
}

func TestC09_RandomPlans(t *testing.T) {
	RunProp(t, Prop[EngineCase]{
		ID: "C09", Name: "random-plans", Quick: 320, Thor: 6000,
		Gen: func(t *rapid.T) EngineCase {
			c := EngineCase{Base: rapid.IntRange(0, 2).Draw(t, "base"), Blocks: rapid.IntRange(3, 12).Draw(t, "blocks")}
			nf := rapid.IntRange(1, 5).Draw(t, "nfaults")
			for i := 0; i < nf; i++ {
				site := faultSites[int(mix64(rapid.Uint64().Draw(t, "site"))%uint64(len(faultSites)))]
				ks := siteKinds(site, false)
				c.Faults = append(c.Faults, FaultSpec{Block: rapid.IntRange(1, 11).Draw(t, "block"), Site: site, Kind: int(ks[int(mix64(rapid.Uint64().Draw(t, "kind"))%uint64(len(ks)))])})
			}
			if rapid.IntRange(0, 2).Draw(t, "child") == 0 {
				c.Childs = append(c.Childs, ChildSpec{Block: rapid.IntRange(1, 11).Draw(t, "childBlock"), Kind: rapid.IntRange(1, 8).Draw(t, "childKind")})
			}
			if rapid.IntRange(0, 3).Draw(t, "reimport") == 0 {
				c.ReimportAt = rapid.IntRange(1, 11).Draw(t, "reimportAt")
			}
			for i := range c.Faults {
				c.Faults[i].InProcess = rapid.Bool().Draw(t, "inProcess")
				c.Faults[i].Pooled = rapid.Bool().Draw(t, "pooled")
			}
			return c
		},
		Run:  runEngineCase,
		Rule: "random multi-fault plans (1-5 faults over histories of 3-12 blocks, several faults per block, combined with invalid children, in-process retries and a restart of both chains from their exported state) with the same oracles; non-trivial = a fault fired or an invalid child was injected; distinct by plan",
	})
}
