package props

// C11..C15 over the shared locking world.  Every property runs the same kind of
// history but asserts only its own clauses, so that a violation is attributed
// to the property it breaks.

import (
	"bytes"
	"fmt"
	"math/big"
	"sort"
	"strings"
	"testing"
	"time"

	"github.com/ethereum/go-ethereum/core/types/goattypes"
	lockingtypes "github.com/goatnetwork/goat/x/locking/types"
	"pgregory.net/rapid"
)

type lockChecker func(w *lockWorld, o *Outcome) *Failure

func runLocking(c LockCase, id string, check lockChecker, final lockChecker) Outcome {
	o := Outcome{Classes: []string{lockCfgClass(c.Cfg)}}
	w, err := newLockWorld(c)
	if err != nil {
		o.Fail = failf("fixture", "fixture-failed", "%v", err)
		return o
	}
	defer w.close()
	for bi, lb := range c.Blocks {
		if w.touchesPowerCap(lb) {
			w.powerBeyondCap = true
		}
		if err := w.step(bi, lb); err != nil {
			if id == "C13" {
				sig := "block-processing-failed"
				if strings.Contains(err.Error(), "consensus engine rejects") {
					sig = "consensus-engine-rejects-updates/" + classifyCometError(err.Error())
				} else if strings.Contains(err.Error(), "re-import of the exported state") {
					sig = "re-import-failed"
				} else if strings.Contains(err.Error(), "FinalizeBlock") {
					sig = "finalize-block-failed/" + classifyFinalizeError(err.Error())
				}
				if w.powerBeyondCap && sig != "consensus-engine-rejects-updates/total-power-overflow" {
					// one root cause (known finding): voting power is not bounded; beyond the cap the uint64
					// arithmetic on powers also wraps around (e.g. weight 2^63+5 on 2 tokens gives power 10,
					// and the next decrease clamps an active validator with holdings to power 0)
					o.Classes = append(o.Classes, "beyond-cap:"+sig)
					sig = "consensus-engine-rejects-updates/total-power-overflow"
				}
				o.Fail = failf("blocks-never-fail", sig, "block %d: %v", bi, err)
				return o
			}
			// the chain halted; C13 owns that failure
			o.Classes = append(o.Classes, "aborted:block-failed")
			return o
		}
		o.Evals++
		if !w.ethOK {
			o.Classes = append(o.Classes, "eth-tx-failed")
		}
		if fl := check(w, &o); fl != nil {
			fl.Detail = fmt.Sprintf("block %d: %s", bi, fl.Detail)
			o.Fail = fl
			return o
		}
	}
	if w.reimports > 0 {
		o.Classes = append(o.Classes, "reimported")
	}
	if final != nil {
		if fl := final(w, &o); fl != nil {
			o.Fail = fl
		}
	}
	return o
}

func classifyCometError(s string) string {
	switch {
	case strings.Contains(s, "failed to find validator") && strings.Contains(s, "to remove"):
		return "removal-of-non-member"
	case strings.Contains(s, "duplicate"):
		return "duplicate"
	case strings.Contains(s, "exceeded"), strings.Contains(s, "overflow"), strings.Contains(s, "exceeds max"), strings.Contains(s, "can't be higher than"),
		strings.Contains(s, "negative"):
		// one root cause: voting power is not bounded (a power >= 2^63 shows up as a negative int64)
		return "total-power-overflow"
	case strings.Contains(s, "empty set"), strings.Contains(s, "applying the validator changes would result in empty set"):
		return "empty-set"
	}
	return "other"
}

func classifyFinalizeError(s string) string {
	switch {
	case strings.Contains(s, "in power ranking"):
		return "non-candidate-in-ranking"
	case strings.Contains(s, "invalid zero power"):
		return "zero-total-power"
	case strings.Contains(s, "existed in the last validator set"):
		return "pending-in-last-set"
	case strings.Contains(s, "not found"):
		return "not-found"
	}
	return "other"
}

// ---------------- C11: locked = held + slashed + released ----------------

func checkC11(w *lockWorld, o *Outcome) *Failure {
	m := w.m
	// model vs observed holdings, per validator and token
	for idx, v := range m.vals {
		ov := w.obsValidator(w.obs, idx)
		if ov == nil {
			return failf("holdings", "validator-missing", "validator %d missing from the export", idx)
		}
		got := coinsMap(ov.Locking)
		if !sameHoldings(got, v.holding) {
			return failf("holdings", "holding-model-mismatch", "validator %d holds %s, ledger says %s", idx, fmtHold(got), fmtHold(v.holding))
		}
		for d, a := range got {
			if a.Sign() < 0 {
				return failf("non-negative", "negative-holding", "validator %d token %s holding %s", idx, d, a)
			}
		}
	}
	obsSlashed := coinsMap(w.obs.Slashed)
	if !sameHoldings(obsSlashed, m.slashed) {
		return failf("slashed", "slashed-model-mismatch", "slashed totals %s, ledger says %s", fmtHold(obsSlashed), fmtHold(m.slashed))
	}
	// the identity from observed quantities only: locked = held + slashed + released
	held := map[string]*big.Int{}
	for i := range w.obs.Validators {
		for d, a := range coinsMap(w.obs.Validators[i].Locking) {
			m.addTo(held, d, a)
		}
	}
	released := map[string]*big.Int{}
	for _, q := range w.obs.UnlockQueue {
		for _, u := range q.Unlocks {
			if u.Amount.IsNegative() {
				return failf("non-negative", "negative-release", "queued unlock %d amount %s", u.Id, u.Amount)
			}
			m.addTo(released, tokenDenom(addrOf(u.Token)), u.Amount.BigInt())
		}
	}
	for _, u := range w.obs.EthTxQueue.Unlocks {
		m.addTo(released, tokenDenom(addrOf(u.Token)), u.Amount.BigInt())
	}
	for _, u := range m.delivered {
		m.addTo(released, tokenDenom(u.token), u.amount)
	}
	denoms := map[string]bool{}
	for d := range m.locked {
		denoms[d] = true
	}
	for d := range held {
		denoms[d] = true
	}
	for d := range released {
		denoms[d] = true
	}
	for d := range denoms {
		sum := new(big.Int)
		for _, x := range []map[string]*big.Int{held, obsSlashed, released} {
			if x[d] != nil {
				sum.Add(sum, x[d])
			}
		}
		lk := m.locked[d]
		if lk == nil {
			lk = new(big.Int)
		}
		if sum.Cmp(lk) != 0 {
			return failf("conservation", "locked-funds-not-conserved", "token %s: locked %s != held %v + slashed %v + released %v", d, lk, held[d], obsSlashed[d], released[d])
		}
	}
	// a single unlock never releases more than requested nor more than was held
	for _, u := range m.pending {
		if u.amount.Cmp(u.requested) > 0 {
			return failf("unlock-bounded", "released-more-than-requested", "unlock %d", u.id)
		}
	}
	for _, q := range w.obs.UnlockQueue {
		for _, u := range q.Unlocks {
			for _, mu := range m.pending {
				if mu.id == u.Id && mu.amount.Cmp(u.Amount.BigInt()) != 0 {
					return failf("unlock-bounded", "release-amount-mismatch", "unlock %d queued with %s, min(requested, held) = %s (requested %s)", u.Id, u.Amount, mu.amount, mu.requested)
				}
			}
		}
	}
	// non-trivial: a slash after which the same validator is touched again, an over-sized unlock, dust
	for _, v := range m.vals {
		if v.slashCount > 0 && v.opsAfter > 0 {
			o.NonTrivial = true
			o.Classes = append(o.Classes, "ops-after-slash")
		}
	}
	for _, u := range m.pending {
		if u.amount.Cmp(u.requested) < 0 {
			o.NonTrivial = true
			o.Classes = append(o.Classes, "unlock-clipped")
		}
	}
	return nil
}

func addrOf(b []byte) (a [20]byte) {
	copy(a[20-len(b):], b)
	return a
}

func TestC11_Ledger(t *testing.T) {
	RunProp(t, Prop[LockCase]{
		ID: "C11", Name: "ledger", Quick: 800, Thor: 12_000,
		Gen:  genLockCase("C11", 40),
		Run:  func(c LockCase) Outcome { return runLocking(c, "C11", checkC11, nil) },
		Rule: "configurations (1-4 genesis validators, MaxValidators 1-5, 1-3 tokens with weights incl. 0 and thresholds incl. 0, slash fractions from 1e-18 to 0.99, windows 3-8) x histories of 4-40 blocks of create/lock/unlock/claim/grant/weight/threshold requests, absences, evidence and time jumps with boundary-biased amounts (0, 1, dust, 1e18+-1, threshold+-1, 1e24); after every block the exported holdings and slashed totals must equal an exact integer ledger and locked = held + slashed + released must hold per token from observed quantities; non-trivial = a slashed validator is touched again, or an unlock larger than the holding; evaluations count blocks",
	})
}

// ---------------- C12: rewards ----------------

type c12State struct {
	prevReward map[int][2]*big.Int // validator -> (goat, gas) at the end of the previous block
	prevPool   [2]*big.Int
	claimed    *big.Int
	ntSeen     bool
}

func newC12() (*c12State, lockChecker, lockChecker) {
	s := &c12State{prevReward: map[int][2]*big.Int{}, prevPool: [2]*big.Int{new(big.Int), new(big.Int)}, claimed: new(big.Int)}
	seenReward := map[uint64]bool{}
	check := func(w *lockWorld, o *Outcome) *Failure {
		m := w.m
		g := w.obs
		pool := g.RewardPool
		for name, x := range map[string]*big.Int{"goat pool": pool.Goat.BigInt(), "gas pool": pool.Gas.BigInt(), "remain": pool.Remain.BigInt()} {
			if x.Sign() < 0 {
				return failf("non-negative", "negative-pool", "%s is %s", name, x)
			}
		}
		// remaining grant follows the schedule
		if pool.Remain.BigInt().Cmp(m.remain) != 0 {
			return failf("emission-schedule", "remain-model-mismatch", "remaining grant %s, schedule says %s (moved %s at height %d)", pool.Remain, m.remain, w.rewardMoved, w.blk.Height)
		}
		// claims enqueued in this block: new entries at the tail of the reward queue (+ none delivered in the same block)
		claimPaid := map[int][2]*big.Int{}
		for _, r := range g.EthTxQueue.Rewards {
			if seenReward[r.Id] {
				continue
			}
			seenReward[r.Id] = true
			if r.Goat.IsNegative() || r.Gas.IsNegative() {
				return failf("non-negative", "negative-claim", "claim %d pays %s/%s", r.Id, r.Goat, r.Gas)
			}
			vi := -1
			for _, mr := range m.execReward {
				if mr.id == r.Id {
					vi = mr.v
				}
			}
			if vi < 0 {
				return failf("claims", "unknown-claim-queued", "reward %d in the queue was never requested", r.Id)
			}
			cur := claimPaid[vi]
			if cur[0] == nil {
				cur = [2]*big.Int{new(big.Int), new(big.Int)}
			}
			cur[0].Add(cur[0], r.Goat.BigInt())
			cur[1].Add(cur[1], r.Gas.BigInt())
			claimPaid[vi] = cur
			s.claimed.Add(s.claimed, r.Goat.BigInt())
			s.claimed.Add(s.claimed, r.Gas.BigInt())
		}
		// per-validator accrual of this block = (now + claimed now) - before
		poolIn := [2]*big.Int{new(big.Int).Set(s.prevPool[0]), new(big.Int).Set(s.prevPool[1])}
		sumDelta := [2]*big.Int{new(big.Int), new(big.Int)}
		totalPower := int64(0)
		for _, v := range w.votes {
			totalPower += v.power
		}
		powerOf := map[int]int64{}
		for _, v := range w.votes {
			powerOf[v.idx] += v.power
		}
		accrued := new(big.Int)
		for idx := range m.vals {
			ov := w.obsValidator(g, idx)
			if ov == nil {
				continue
			}
			now := [2]*big.Int{ov.Reward.BigInt(), ov.GasReward.BigInt()}
			if now[0].Sign() < 0 || now[1].Sign() < 0 {
				return failf("non-negative", "negative-accrued-reward", "validator %d accrued %s/%s", idx, now[0], now[1])
			}
			accrued.Add(accrued, now[0])
			accrued.Add(accrued, now[1])
			before := s.prevReward[idx]
			if before[0] == nil {
				before = [2]*big.Int{new(big.Int), new(big.Int)}
			}
			paid := claimPaid[idx]
			if paid[0] == nil {
				paid = [2]*big.Int{new(big.Int), new(big.Int)}
			}
			for k := 0; k < 2; k++ {
				delta := new(big.Int).Add(now[k], paid[k])
				delta.Sub(delta, before[k])
				if delta.Sign() < 0 {
					return failf("shares", "negative-share", "validator %d received a negative share %s", idx, delta)
				}
				sumDelta[k].Add(sumDelta[k], delta)
				if w.blk.Height >= 2 && totalPower > 0 {
					// proportionality: |share - pool*p/P| <= 1 + pool*1e-18
					ideal := new(big.Int).Mul(poolIn[k], big.NewInt(powerOf[idx]))
					ideal.Quo(ideal, big.NewInt(totalPower))
					diff := new(big.Int).Sub(delta, ideal)
					tol := new(big.Int).Quo(poolIn[k], e18)
					tol.Add(tol, big.NewInt(2))
					if diff.CmpAbs(tol) > 0 {
						return failf("proportional", "share-not-proportional", "validator %d (power %d of %d) received %s of pool %s, proportional share %s", idx, powerOf[idx], totalPower, delta, poolIn[k], ideal)
					}
				} else if delta.Sign() != 0 {
					return failf("shares", "share-without-distribution", "validator %d accrued %s without a distribution", idx, delta)
				}
				// a claim pays exactly the accrued amount and resets it
				if paid[k].Sign() > 0 && len(claimPaid) > 0 && now[k].Sign() != 0 {
					return failf("claims", "claim-does-not-reset", "validator %d still has %s accrued after a claim in this block", idx, now[k])
				}
			}
			s.prevReward[idx] = now
		}
		// pools: what was there was shared out except dust; then this block's intake was added
		intake := [2]*big.Int{w.rewardMoved, w.gasNow}
		for k, name := range []string{"goat", "gas"} {
			obsPool := pool.Goat.BigInt()
			if k == 1 {
				obsPool = pool.Gas.BigInt()
			}
			dust := new(big.Int).Sub(obsPool, intake[k])
			if dust.Sign() < 0 {
				return failf("dust", "negative-dust", "%s pool %s is smaller than this block's intake %s: shares exceeded the pool", name, obsPool, intake[k])
			}
			if w.blk.Height >= 2 && totalPower > 0 {
				total := new(big.Int).Add(sumDelta[k], dust)
				if total.Cmp(poolIn[k]) != 0 {
					return failf("distribution-conserves", "shares-plus-dust-not-pool", "%s: shares %s + dust %s != pool %s", name, sumDelta[k], dust, poolIn[k])
				}
			}
		}
		s.prevPool = [2]*big.Int{pool.Goat.BigInt(), pool.Gas.BigInt()}
		// global conservation: granted + gas = remain + pools + accrued + claimed (queued or delivered)
		lhs := new(big.Int).Add(m.granted, m.gasIn)
		rhs := new(big.Int).Add(pool.Remain.BigInt(), pool.Goat.BigInt())
		rhs.Add(rhs, pool.Gas.BigInt())
		rhs.Add(rhs, accrued)
		rhs.Add(rhs, s.claimed)
		if lhs.Cmp(rhs) != 0 {
			return failf("conservation", "reward-value-not-conserved", "granted+gas %s != remain %s + pools %s/%s + accrued %s + claimed %s", lhs, pool.Remain, pool.Goat, pool.Gas, accrued, s.claimed)
		}
		// non-trivial: >= 2 voters with unequal power and a non-zero pool; halving boundary or exhaustion
		if len(w.votes) >= 2 && (poolIn[0].Sign() > 0 || poolIn[1].Sign() > 0) {
			for _, v := range w.votes[1:] {
				if v.power != w.votes[0].power {
					o.NonTrivial = true
					o.Classes = append(o.Classes, "unequal-powers")
					break
				}
			}
		}
		if w.blk.Height%m.cfg.Halving == 0 && w.blk.Height > 0 {
			o.Classes = append(o.Classes, "halving-boundary")
			o.NonTrivial = true
		}
		if m.remain.Sign() == 0 && w.rewardMoved.Sign() > 0 {
			o.Classes = append(o.Classes, "grant-exhausted")
			o.NonTrivial = true
		}
		return nil
	}
	return s, check, nil
}

func TestC12_Rewards(t *testing.T) {
	RunProp(t, Prop[LockCase]{
		ID: "C12", Name: "rewards", Quick: 800, Thor: 12_000,
		Gen: genLockCase("C12", 40),
		Run: func(c LockCase) Outcome {
			_, check, _ := newC12()
			return runLocking(c, "C12", check, nil)
		},
		Rule: "locking-world histories with grants (incl. exhaustion), gas revenues (0, 1, odd, 1e18, 1e27), claims for validators of every status (repeated in one block), halving intervals 1-7 and initial rewards 1..2.4e18; after every block: remaining grant equals the emission schedule min(remain, initial >> height/interval); each validator's share >= 0 and within 1 + pool*1e-18 of pool*power/total for the previous block's voters; shares + carried dust = pool with dust >= 0; a claim pays exactly the accrued pair and resets it; granted + gas = remain + pools + accrued + claimed; non-trivial = >= 2 voters with unequal power and a non-zero pool, a halving boundary, or grant exhaustion",
	})
}

// ---------------- C13: top-K and acceptable updates ----------------

func checkC13(w *lockWorld, o *Outcome) *Failure {
	chain := w.sim.Chain
	set := chain.NextVals
	k := int(w.m.cfg.MaxVals)
	if set.Size() > k {
		return failf("size", "set-larger-than-maximum", "validator set has %d members, maximum is %d", set.Size(), k)
	}
	type cand struct {
		idx    int
		power  uint64
		addr   []byte
		status string
	}
	var members, outsiders []cand
	for i := range w.obs.Validators {
		ov := &w.obs.Validators[i]
		idx := idxOfPubkey(ov.Pubkey)
		if idx < 0 {
			return failf("observation", "unknown-validator", "export contains an unknown validator %x", ov.Pubkey)
		}
		c := cand{idx: idx, power: ov.Power, addr: valAccount(idx).Addr(), status: statusName(ov.Status)}
		_, mv := set.GetByAddress(c.addr)
		if mv != nil {
			if c.status != stActive {
				return failf("members-active", "member-not-active", "validator %d is in the consensus set with status %s", idx, c.status)
			}
			if c.power == 0 || uint64(mv.VotingPower) != c.power {
				return failf("member-power", "member-power-mismatch", "validator %d: consensus power %d, recorded power %d", idx, mv.VotingPower, c.power)
			}
			members = append(members, c)
		} else {
			if c.status == stActive {
				return failf("members-active", "active-validator-not-in-set", "validator %d is recorded active but is not in the consensus set", idx)
			}
			outsiders = append(outsiders, c)
		}
	}
	if len(members) != set.Size() {
		return failf("observation", "set-member-unknown-to-module", "consensus set has %d members, %d of them are recorded validators", set.Size(), len(members))
	}
	less := func(a, b cand) bool { // a ranks below b
		if a.power != b.power {
			return a.power < b.power
		}
		return bytes.Compare(a.addr, b.addr) < 0
	}
	for _, out := range outsiders {
		if out.status != stPending || out.power == 0 {
			if out.status == stPending && out.power == 0 {
				o.Classes = append(o.Classes, "zero-power-candidate")
				o.NonTrivial = true
			}
			continue
		}
		if len(members) < k {
			return failf("top-k", "eligible-candidate-left-out", "validator %d (pending, power %d) is outside a set of %d < %d members", out.idx, out.power, len(members), k)
		}
		for _, m := range members {
			if less(m, out) {
				return failf("top-k", "outsider-outranks-member", "validator %d (power %d) is outside the set while member %d has power %d", out.idx, out.power, m.idx, m.power)
			}
			if m.power == out.power {
				o.Classes = append(o.Classes, "tie-at-cut")
				o.NonTrivial = true
			}
		}
	}
	// the module's own record of the active set (what it would hand to a new chain) equals the consensus set
	rec, err := w.sim.Node.App.LockingKeeper.ActiveValidators(w.sim.Node.CommittedCtx())
	if err != nil {
		return failf("recorded-set", "active-set-unreadable", "%v", err)
	}
	if len(rec) != set.Size() {
		return failf("recorded-set", "recorded-set-differs-from-consensus-set", "module records %d active validators, the consensus engine has %d", len(rec), set.Size())
	}
	for _, gv := range rec {
		_, mv := set.GetByAddress(gv.Address)
		if mv == nil || mv.VotingPower != gv.Power {
			return failf("recorded-set", "recorded-set-differs-from-consensus-set", "module records validator %X with power %d, the consensus engine has %v", gv.Address, gv.Power, mv)
		}
	}
	var add, rem int
	for _, u := range w.resp.Resp.ValidatorUpdates {
		if u.Power == 0 {
			rem++
		} else {
			add++
		}
	}
	if add > 0 && rem > 0 {
		o.Classes = append(o.Classes, "add+remove")
		o.NonTrivial = true
	}
	return nil
}

func TestC13_ValidatorSet(t *testing.T) {
	RunProp(t, Prop[LockCase]{
		ID: "C13", Name: "valset", Quick: 960, Thor: 14_000,
		Gen:  genLockCase("C13", 40),
		Run:  func(c LockCase) Outcome { return runLocking(c, "C13", checkC13, nil) },
		Rule: "locking-world histories biased to joins/leaves at the MaxValidators boundary, ties, weight changes to and from 0, thresholds raised above holdings; every block's validator updates go through CometBFT's validateValidatorUpdates and ValidatorSet.UpdateWithChangeSet (H+2 pipeline) - any error or FinalizeBlock failure is a violation - and the accumulated set must have <= K members, each recorded active with exactly its recorded positive power, no recorded-active non-member, and no pending candidate with positive power outranking a member (power, then address); non-trivial = a block whose updates contain both an addition and a removal, a tie at the cut, or a zero-power candidate",
	})
}

// ---------------- C14: downtime and double-sign ----------------

func newC14() lockChecker {
	everTomb := map[int]bool{}
	return func(w *lockWorld, o *Outcome) *Failure {
		m := w.m
		set := w.sim.Chain.NextVals
		for idx, v := range m.vals {
			ov := w.obsValidator(w.obs, idx)
			if ov == nil {
				return failf("observation", "validator-missing", "validator %d missing from the export", idx)
			}
			got := statusName(ov.Status)
			if got != v.status {
				sig := "status-model-mismatch"
				switch {
				case v.status == stDowngrade && got == stActive:
					sig = "downtime-not-punished"
				case v.status == stActive && got == stDowngrade:
					sig = "punished-without-offence"
				case v.status == stTombstoned:
					sig = "evidence-not-tombstoned"
				case got == stTombstoned:
					sig = "tombstoned-without-valid-evidence"
				case v.status == stDowngrade && got == stPending:
					sig = "released-from-jail-early"
				}
				return failf("status", sig, "validator %d is %s, reference model says %s (missed %d/%d in window offset %d)", idx, got, v.status, v.missed, m.cfg.MaxMissed, v.offset)
			}
			if v.status == stActive {
				if ov.SigningInfo.Missed != v.missed || ov.SigningInfo.Offset != v.offset {
					return failf("window-counter", "signing-window-mismatch", "validator %d window (offset %d, missed %d), reference (offset %d, missed %d)", idx, ov.SigningInfo.Offset, ov.SigningInfo.Missed, v.offset, v.missed)
				}
			}
			// slashed exactly once per offence: holdings follow the ledger
			if !sameHoldings(coinsMap(ov.Locking), v.holding) {
				return failf("slash-once", "holding-after-slash-mismatch", "validator %d holds %s, reference %s after %d slash(es)", idx, fmtHold(coinsMap(ov.Locking)), fmtHold(v.holding), v.slashCount)
			}
			_, member := set.GetByAddress(valAccount(idx).Addr())
			if v.status == stDowngrade || v.status == stTombstoned || v.status == stInactive {
				if ov.Power != 0 {
					return failf("no-power-while-out", "punished-validator-has-power", "validator %d is %s with power %d", idx, v.status, ov.Power)
				}
				if member != nil {
					return failf("no-power-while-out", "punished-validator-in-set", "validator %d is %s but in the consensus set", idx, v.status)
				}
			}
			if v.status == stDowngrade && !ov.JailedUntil.Equal(v.jailedTo) {
				return failf("jail-time", "jail-time-mismatch", "validator %d jailed until %s, reference %s", idx, ov.JailedUntil, v.jailedTo)
			}
			if v.tombstoned {
				everTomb[idx] = true
			}
			if everTomb[idx] && (got != stTombstoned || ov.Power != 0 || member != nil) {
				return failf("tombstone-permanent", "tombstoned-validator-returned", "validator %d was tombstoned and is now %s with power %d (in set: %v)", idx, got, ov.Power, member != nil)
			}
			if v.punishedAt >= 0 && v.opsAfter >= 5 {
				o.NonTrivial = true
				o.Classes = append(o.Classes, "punished+5ops")
			}
		}
		if !sameHoldings(coinsMap(w.obs.Slashed), m.slashed) {
			return failf("slash-once", "slashed-total-mismatch", "slashed totals %s, reference %s", fmtHold(coinsMap(w.obs.Slashed)), fmtHold(m.slashed))
		}
		if len(w.downNow) > 0 {
			o.Classes = append(o.Classes, "downtime-demotion")
			o.NonTrivial = true
		}
		if len(w.tombNow) > 0 {
			o.Classes = append(o.Classes, "tombstone")
			o.NonTrivial = true
		}
		return nil
	}
}

func TestC14_Punishment(t *testing.T) {
	RunProp(t, Prop[LockCase]{
		ID: "C14", Name: "punish", Quick: 960, Thor: 14_000,
		Gen:  genLockCase("C14", 50),
		Run:  func(c LockCase) Outcome { return runLocking(c, "C14", newC14(), nil) },
		Rule: "locking-world histories biased to absences (1-3 validators per block, never more than a third of the voting power) and evidence with (age-blocks, age-time) in {below, at, above}^2 of short consensus limits, followed by lock/unlock/weight/threshold requests aimed at punished validators and time jumps around the jail time; reference: per-validator signing-window counter, demotion + slash of floor(fraction*amount) (all if 0) exactly once, jail-until, re-entry only after the jail time with every threshold met, tombstone for evidence inside either age limit and never any power/membership again; compared after every block with status, window counters, holdings, slashed totals, power and set membership; non-trivial = a demotion or tombstone, or >= 5 later operations on a punished validator",
	})
}

// ---------------- C15: unlock delays ----------------

func newC15() (lockChecker, lockChecker) {
	deliveredAt := map[uint64]time.Time{}
	var order []uint64
	check := func(w *lockWorld, o *Outcome) *Failure {
		m := w.m
		if !w.ethOK && strings.Contains(w.resp.Resp.TxResults[0].Log, "dequeue mismatched") {
			return failf("hand-over", "honest-payload-dequeue-mismatch", "the execution-block message built from the committed queues failed: %s", w.resp.Resp.TxResults[0].Log)
		}
		// statuses (exit rule) must follow the reference
		for idx, v := range m.vals {
			ov := w.obsValidator(w.obs, idx)
			if ov == nil {
				return failf("observation", "validator-missing", "validator %d missing from the export", idx)
			}
			if got := statusName(ov.Status); got != v.status && (got == stInactive || v.status == stInactive) {
				return failf("exit-rule", "exit-status-mismatch", "validator %d is %s, reference says %s", idx, got, v.status)
			}
			if v.status == stInactive {
				if ov.Power != 0 {
					return failf("exit-rule", "exited-validator-has-power", "validator %d exited but has power %d", idx, ov.Power)
				}
				if _, mem := w.sim.Chain.NextVals.GetByAddress(valAccount(idx).Addr()); mem != nil {
					return failf("exit-rule", "exited-validator-in-set", "validator %d exited but is in the consensus set", idx)
				}
			}
		}
		// the pending time queue equals the reference schedule
		type qk struct {
			id uint64
			t  int64
		}
		obsQ := map[qk]string{}
		for _, q := range w.obs.UnlockQueue {
			for _, u := range q.Unlocks {
				obsQ[qk{u.Id, q.Timestamp.UnixNano()}] = u.Amount.String()
			}
		}
		if len(obsQ) != len(m.pending) {
			return failf("schedule", "unlock-queue-size-mismatch", "time queue holds %d unlocks, reference %d", len(obsQ), len(m.pending))
		}
		for _, u := range m.pending {
			amt, ok := obsQ[qk{u.id, u.maturity.UnixNano()}]
			if !ok {
				sig := "unlock-maturity-mismatch"
				if u.exit {
					sig = "exit-unlock-not-on-exit-delay"
				}
				return failf("schedule", sig, "unlock %d (exit=%v) is not queued for %s", u.id, u.exit, u.maturity.UTC().Format(time.RFC3339))
			}
			if amt != u.amount.String() {
				return failf("schedule", "unlock-amount-mismatch", "unlock %d queued with %s, reference %s", u.id, amt, u.amount)
			}
		}
		// deliveries of this block
		if w.ethOK {
			n := 0
			for _, st := range w.sysTxs {
				cu, ok := st.Tx.(*goattypes.CompleteUnlockTx)
				if !ok {
					continue
				}
				n++
				if _, dup := deliveredAt[cu.Id]; dup {
					return failf("once", "unlock-delivered-twice", "unlock %d completed twice", cu.Id)
				}
				deliveredAt[cu.Id] = w.blk.Time
				order = append(order, cu.Id)
				var mu *mUnlock
				for _, d := range m.delivered {
					if d.id == cu.Id {
						mu = d
					}
				}
				if mu == nil {
					return failf("once", "unknown-unlock-delivered", "completion of unlock %d that is not due in the reference", cu.Id)
				}
				if w.blk.Time.Before(mu.maturity) {
					return failf("not-before-maturity", "unlock-released-early", "unlock %d (exit=%v) completed at %s, matures %s", cu.Id, mu.exit, w.blk.Time.UTC().Format(time.RFC3339), mu.maturity.UTC().Format(time.RFC3339))
				}
				if cu.Amount.Cmp(mu.amount) != 0 || cu.Token != mu.token {
					return failf("amount", "unlock-completion-mismatch", "unlock %d completed with %s of %x, reference %s of %x", cu.Id, cu.Amount, cu.Token, mu.amount, mu.token)
				}
			}
			if n > 16 {
				return failf("cap", "more-than-16-unlocks-per-block", "%d unlock completions in one block", n)
			}
			if n == 16 {
				o.Classes = append(o.Classes, "cap-reached")
				o.NonTrivial = true
			}
		}
		// matured-and-waiting queue equals the reference
		if len(w.obs.EthTxQueue.Unlocks) != len(m.execUnlock) {
			return failf("schedule", "matured-queue-mismatch", "delivery queue holds %d unlocks, reference %d", len(w.obs.EthTxQueue.Unlocks), len(m.execUnlock))
		}
		for i, u := range m.execUnlock {
			if w.obs.EthTxQueue.Unlocks[i].Id != u.id {
				return failf("maturity-order", "delivery-order-mismatch", "delivery queue position %d holds unlock %d, reference %d", i, w.obs.EthTxQueue.Unlocks[i].Id, u.id)
			}
		}
		if len(w.exitNow) > 0 {
			o.Classes = append(o.Classes, "exit")
		}
		return nil
	}
	final := func(w *lockWorld, o *Outcome) *Failure {
		m := w.m
		// delivered in (maturity, request order) order
		pos := map[uint64]int{}
		for i, id := range order {
			pos[id] = i
		}
		d := append([]*mUnlock{}, m.delivered...)
		sort.SliceStable(d, func(i, j int) bool { return pos[d[i].id] < pos[d[j].id] })
		for i := 1; i < len(d); i++ {
			a, b := d[i-1], d[i]
			if b.maturity.Before(a.maturity) || (b.maturity.Equal(a.maturity) && b.order < a.order) {
				return failf("maturity-order", "delivered-out-of-maturity-order", "unlock %d (matures %s) completed after unlock %d (matures %s)", a.id, a.maturity, b.id, b.maturity)
			}
			if !a.maturity.Equal(b.maturity) && a.exit != b.exit && deliveredAt[a.id].Equal(deliveredAt[b.id]) {
				o.NonTrivial = true
				o.Classes = append(o.Classes, "mixed-delays-same-block")
			}
		}
		if len(d) >= 2 {
			o.Classes = append(o.Classes, "deliveries>=2")
			o.NonTrivial = true
		}
		return nil
	}
	return check, final
}

func TestC15_Unlocks(t *testing.T) {
	RunProp(t, Prop[LockCase]{
		ID: "C15", Name: "unlocks", Quick: 960, Thor: 14_000,
		Gen: genLockCase("C15", 50),
		Run: func(c LockCase) Outcome {
			check, final := newC15()
			return runLocking(c, "C15", check, final)
		},
		Rule: "locking-world histories biased to unlocks (bursts of 17-24 in one block, unlocks crossing a threshold, unlocks for inactive/tombstoned validators) with unlock periods 5-40 s, exit periods up to 40 s longer and block intervals 1-125 s; reference schedule: maturity = request block time + (exit ? exit period : unlock period) with exit decided from status and remaining holding vs threshold; after every block the exported time queue and delivery queue must equal the schedule, every completion handed to the execution layer must come at a block time >= its maturity, exactly once, at most 16 per block, in (maturity, request) order, with amount = min(requested, held); an exiting validator has zero power and is outside the set immediately; non-trivial = >= 2 completions delivered, the cap reached, or different delays maturing in one block",
	})
}

var _ = lockingtypes.Active

// ---- C13, extreme regime: only "every update is acceptable / blocks never fail" ----

func genLockCaseExtreme(t *rapid.T) LockCase {
	c := genLockCase("C13", 12)(t)
	bigW := []uint64{1, 1_000_000, 1 << 32, 1 << 53, 1 << 62, 1<<63 + 5, 1<<64 - 1}
	bigA := []string{"1000000000000000000", "1000000000000000000000000", "1000000000000000000000000000000", "1267650600228229401496703205376", "170141183460469231731687303715884105727"}
	for i := range c.Blocks {
		b := &c.Blocks[i]
		if rapid.IntRange(0, 2).Draw(t, "bigWeight") == 0 {
			b.Weights = append(b.Weights, WeightReq{Tok: rapid.IntRange(0, len(c.Cfg.Tokens)-1).Draw(t, "wTok"), W: rapid.SampledFrom(bigW).Draw(t, "w")})
		}
		if rapid.IntRange(0, 1).Draw(t, "bigLock") == 0 {
			b.Locks = append(b.Locks, LockReq{V: rapid.IntRange(1, lockUniverse-1).Draw(t, "lv"), Tok: rapid.IntRange(0, len(c.Cfg.Tokens)-1).Draw(t, "lt"), Amt: rapid.SampledFrom(bigA).Draw(t, "la")})
		}
	}
	return c
}

func TestC13_Extreme(t *testing.T) {
	RunProp(t, Prop[LockCase]{
		ID: "C13", Name: "extreme", Quick: 320, Thor: 10_000,
		Gen: genLockCaseExtreme,
		Run: func(c LockCase) Outcome {
			o := runLocking(c, "C13", func(w *lockWorld, o *Outcome) *Failure { return nil }, nil)
			o.NonTrivial = true
			return o
		},
		Rule: "extreme regime: the same histories with token weights up to 2^64-1 and lock amounts up to 2^127; only the clauses 'every reported change is acceptable to CometBFT' and 'begin/end-of-block logic never fails' are asserted (a validator or total power beyond CometBFT's MaxTotalVotingPower = MaxInt64/8 must never be reported)",
	})
}
