package props

// C05 — withdrawals reach exactly one terminal outcome, paid within the user's terms.

import (
	"bytes"
	"fmt"
	"math/big"
	"testing"
	"time"

	"github.com/btcsuite/btcd/wire"
	sdk "github.com/cosmos/cosmos-sdk/types"
	"github.com/ethereum/go-ethereum/core/types/goattypes"
	bitcointypes "github.com/goatnetwork/goat/x/bitcoin/types"
	"pgregory.net/rapid"
	"verif/harness/world"
)

// ---- data-only case ----

type WdReq struct {
	AddrKind int    `json:"addr_kind"`
	Amount   uint64 `json:"amount"`
	Price    uint64 `json:"price"`
}
type WdRef struct {
	Ref   int    `json:"ref"`
	Price uint64 `json:"price,omitempty"`
}
type WdTx struct {
	Kind     string `json:"kind"` // process | replace | finalize | approve
	Refs     []int  `json:"refs,omitempty"`
	OutMut   []int  `json:"out_mut,omitempty"`  // per output: 0 right, 1 wrong script, 2 value above request, 3 value == request
	Extra    int    `json:"extra,omitempty"`    // 0 none, 1 change to current key, 2 change to a stranger, 3 two extra outputs
	FeeKind  int    `json:"fee_kind,omitempty"` // 0 below the tightest maximum, 1 exactly at it, 2 above it
	PidRef   int    `json:"pid_ref,omitempty"`
	FeeDelta int    `json:"fee_delta,omitempty"` // replace: new fee - old fee
	SameTx   bool   `json:"same_tx,omitempty"`
	Cand     int    `json:"cand,omitempty"`    // finalize: candidate index; negative = a foreign txid
	Mined    int    `json:"mined,omitempty"`   // 0 voted block, 1 block not voted, 2 wrong header
	Pos      int    `json:"pos,omitempty"`     // 0 true, 1 claimed 0, 2 alias, 3 neighbour
	Proof    int    `json:"proof,omitempty"`   // 0 genuine, 1 bit flip, 2 empty
	AtZero   bool   `json:"at_zero,omitempty"` // mine the transaction as the block's first transaction
	Bias     bool   `json:"bias,omitempty"`    // resolve id references among the ids whose status fits the action, if any
}
type WdBlock struct {
	DT        int     `json:"dt"`
	Withdraws []WdReq `json:"withdraws,omitempty"`
	RBFs      []WdRef `json:"rbfs,omitempty"`
	Cancels   []WdRef `json:"cancels,omitempty"`
	Tx        *WdTx   `json:"tx,omitempty"`
}
type WdCase struct {
	N      int       `json:"n"`
	Blocks []WdBlock `json:"blocks"`
}

// ---- reference state machine ----

type mWithdrawal struct {
	id       uint64
	status   string // pending canceling processing paid canceled
	address  string
	script   []byte
	amount   uint64
	maxPrice uint64
	rTxid    []byte
	rTxout   uint32
	rAmount  uint64
	actions  int // competing actions seen
}
type mProcessing struct {
	pid   uint64
	ids   []uint64
	txids [][]byte
	outs  [][]uint64
	raws  [][]byte
	fee   uint64
}

type wdWorld struct {
	f        *voteFixture
	wds      map[uint64]*mWithdrawal
	order    []uint64
	procs    map[uint64]*mProcessing
	procIDs  []uint64
	nextPid  uint64
	nextID   uint64
	btcTip   uint64
	prevHash []byte
	paid     map[uint64]int
	refunded map[uint64]int
	oldKey   world.BtcKey
	prevKey  *world.BtcKey // the key that was current before the last rotation
	nt       bool
}

func wdAddress(kind int, id uint64) (addr string, script []byte, ok bool) {
	h20 := world.Hash160([]byte(fmt.Sprintf("wd-user-%d", id)))
	h32 := world.DSha([]byte(fmt.Sprintf("wd-user-%d", id)))
	switch kind % 8 {
	case 0:
		a, _ := bech32SegwitAddr("bcrt", 0, h20)
		return a, world.P2WPKHScript(h20), true
	case 1:
		a, _ := bech32SegwitAddr("bcrt", 0, h32)
		return a, world.P2WSHScript(h32), true
	case 2:
		a, _ := bech32SegwitAddr("bcrt", 1, h32)
		return a, world.P2TRScript(h32), true
	case 3:
		return base58CheckEncode(0x6f, h20), world.P2PKHScript(h20), true
	case 4:
		return base58CheckEncode(0xc4, h20), world.P2SHScript(h20), true
	case 5:
		return fmt.Sprintf("not-an-address-%d", id), nil, false
	case 6:
		return fmt.Sprintf("%x", world.NewBtcKey(int(id%50), false).Priv.PubKey().SerializeCompressed()), nil, false
	}
	a, _ := bech32SegwitAddr("bc", 0, h20) // another network
	return a, nil, false
}

func newWdWorld(c WdCase) (*wdWorld, error) {
	spec := world.DefaultSpec(1, c.N)
	spec.RelayerParams.ElectingPeriod = 1000 * time.Hour
	spec.BtcKeys = []world.BtcKey{world.NewBtcKey(3, false), world.NewBtcKey(0, false)} // an old key and the current one
	s, err := world.NewSim(spec)
	if err != nil {
		return nil, err
	}
	f := &voteFixture{sim: s, n: c.N, btcKey: world.NewBtcKey(0, false)}
	if _, err := s.Step(world.StepOpts{DT: 5 * time.Second, Proposer: -1}); err != nil {
		s.Close()
		return nil, err
	}
	return &wdWorld{f: f, wds: map[uint64]*mWithdrawal{}, procs: map[uint64]*mProcessing{}, nextID: 1, btcTip: spec.BtcTip,
		prevHash: spec.BtcHashes[0], paid: map[uint64]int{}, refunded: map[uint64]int{}, oldKey: world.NewBtcKey(3, false)}, nil
}

func (w *wdWorld) refID(ref int) (uint64, bool) {
	if len(w.order) == 0 {
		return 0, false
	}
	return w.order[abs(ref)%len(w.order)], true
}

// observe records the bridge system transactions handed to the execution layer.
func (w *wdWorld) observe(raws [][]byte) *Failure {
	for _, raw := range raws {
		st, err := world.DecodeSysTx(raw)
		if err != nil {
			return failf("hand-over", "undecodable-system-tx", "%v", err)
		}
		switch t := st.Tx.(type) {
		case *goattypes.PaidTx:
			id := t.Id.Uint64()
			w.paid[id]++
			m := w.wds[id]
			if m == nil || m.status != "paid" {
				return failf("paid-only-after-finalisation", "paid-notice-without-finalisation", "execution layer told 'paid' for withdrawal %d which the reference has as %v", id, m)
			}
			amt := new(big.Int).Div(t.Amount, satoshi).Uint64()
			if !bytes.Equal(t.Txid[:], m.rTxid) || t.TxOut != m.rTxout || amt != m.rAmount {
				return failf("paid-amount", "paid-notice-mismatch", "withdrawal %d reported paid by %x:%d amount %d, finalised candidate is %x:%d amount %d", id, t.Txid[:4], t.TxOut, amt, m.rTxid[:4], m.rTxout, m.rAmount)
			}
		case *goattypes.Cancel2Tx:
			id := t.Id.Uint64()
			w.refunded[id]++
			m := w.wds[id]
			if m == nil || m.status != "canceled" {
				return failf("refund-only-after-cancellation", "refund-notice-without-cancellation", "execution layer told 'refund' for withdrawal %d which the reference has as %v", id, m)
			}
		}
	}
	for id := range w.wds {
		if w.paid[id]+w.refunded[id] > 1 {
			return failf("one-terminal-outcome", "two-terminal-notices", "withdrawal %d: %d paid and %d refund notices", id, w.paid[id], w.refunded[id])
		}
	}
	return nil
}

func (w *wdWorld) step(bi int, b WdBlock, o *Outcome) *Failure {
	sim := w.f.sim
	rv, err := sim.Node.RelayerView()
	if err != nil {
		return failf("query", "query-failed", "%v", err)
	}
	prop := w.f.memberAcc(rv.Proposer)
	// ---- execution-layer requests ----
	br := goattypes.BridgeRequests{}
	var fresh []newWd
	for _, r := range b.Withdraws {
		id := w.nextID
		w.nextID++
		addr, script, ok := wdAddress(r.AddrKind, id)
		br.Withdraws = append(br.Withdraws, &goattypes.WithdrawalRequest{Id: id, Amount: r.Amount, TxPrice: r.Price, Address: addr})
		fresh = append(fresh, newWd{m: &mWithdrawal{id: id, address: addr, script: script, amount: r.Amount, maxPrice: r.Price}, ok: ok})
	}
	var rbfs, cancels []WdRef
	for _, r := range b.RBFs {
		if id, ok := w.refID(r.Ref); ok {
			br.ReplaceByFees = append(br.ReplaceByFees, &goattypes.ReplaceByFeeRequest{Id: id, TxPrice: r.Price})
			rbfs = append(rbfs, WdRef{Ref: int(id), Price: r.Price})
		}
	}
	for _, r := range b.Cancels {
		if id, ok := w.refID(r.Ref); ok {
			br.Cancel1s = append(br.Cancel1s, &goattypes.Cancel1Request{Id: id})
			cancels = append(cancels, WdRef{Ref: int(id)})
		}
	}
	// ---- the relayer transaction(s) of this block, built against the state before the block ----
	var txs [][]byte
	var expect []bool
	var apply []func()
	bump := uint64(0)
	addTx := func(msg sdk.Msg, ok bool, fn func()) *Failure {
		raw, err := sim.Node.Tx(prop, bump, world.TxOpts{}, msg)
		if err != nil {
			return failf("fixture", "tx-build-failed", "%v", err)
		}
		bump++
		txs = append(txs, raw)
		expect = append(expect, ok)
		apply = append(apply, fn)
		return nil
	}
	// the requests of this block are applied before the relayer transactions run
	preview := w.previewRequests(fresh, rbfs, cancels)
	if b.Tx != nil {
		if fl := w.buildTx(b.Tx, rv, preview, addTx, o); fl != nil {
			return fl
		}
	}
	res, err := sim.Step(world.StepOpts{DT: time.Duration(b.DT) * time.Second, Proposer: -1, Txs: txs,
		Eth: world.EthBlockOpts{Plan: world.BuildPlan{Requests: br.Encode()}}})
	if err != nil {
		return failf("block-processing", "block-failed", "%v", err)
	}
	if res.Resp.TxResults[0].Code != 0 {
		return failf("block-processing", "eth-block-message-failed", "the execution-block message failed: %s", res.Resp.TxResults[0].Log)
	}
	// system txs handed over in this block were decided by earlier blocks
	if _, m, _ := decodeEthBlockTx(sim.Node, res.Txs[0]); m != nil {
		if fl := w.observe(m.Payload.Transactions[:int(m.Payload.ExtraData[0])]); fl != nil {
			return fl
		}
	}
	// apply the requests to the model
	for _, nw := range fresh {
		if nw.ok {
			nw.m.status = "pending"
		} else {
			nw.m.status = "canceled"
			o.Classes = append(o.Classes, "refund-at-creation")
		}
		w.wds[nw.m.id] = nw.m
		w.order = append(w.order, nw.m.id)
	}
	for _, r := range rbfs {
		m := w.wds[uint64(r.Ref)]
		m.actions++
		if m.status == "pending" || m.status == "processing" {
			m.maxPrice = r.Price
		}
	}
	for _, r := range cancels {
		m := w.wds[uint64(r.Ref)]
		m.actions++
		if m.status == "pending" {
			m.status = "canceling"
		}
	}
	for i := range txs {
		code := res.Resp.TxResults[1+i].Code
		if (code == 0) != expect[i] {
			sig := "valid-action-rejected/" + b.Tx.Kind
			if !expect[i] {
				sig = "illegal-action-accepted/" + b.Tx.Kind
			}
			return failf("transition", sig, "tx %d (%s %+v): code=%d log=%q, state machine expects accept=%v", i, b.Tx.Kind, *b.Tx, code, res.Resp.TxResults[1+i].Log, expect[i])
		}
		if code == 0 && apply[i] != nil {
			apply[i]()
		}
		if code == 0 && i == len(txs)-1 {
			o.Classes = append(o.Classes, "ok:"+b.Tx.Kind)
		}
	}
	// Query/Withdrawal equals the model record for every id
	for _, id := range w.order {
		m := w.wds[id]
		var resp bitcointypes.QueryWithdrawalResponse
		if err := sim.Node.Query("/goat.bitcoin.v1.Query/Withdrawal", &bitcointypes.QueryWithdrawalRequest{Id: id}, &resp); err != nil {
			return failf("query", "withdrawal-missing", "withdrawal %d: %v", id, err)
		}
		got := resp.Withdrawal
		want := map[string]bitcointypes.WithdrawalStatus{"pending": bitcointypes.WITHDRAWAL_STATUS_PENDING, "canceling": bitcointypes.WITHDRAWAL_STATUS_CANCELING,
			"processing": bitcointypes.WITHDRAWAL_STATUS_PROCESSING, "paid": bitcointypes.WITHDRAWAL_STATUS_PAID, "canceled": bitcointypes.WITHDRAWAL_STATUS_CANCELED}[m.status]
		if got.Status != want {
			return failf("status", "status-model-mismatch", "withdrawal %d is %s, state machine says %s", id, got.Status, m.status)
		}
		if got.MaxTxPrice != m.maxPrice || got.RequestAmount != m.amount || got.Address != m.address {
			return failf("terms", "terms-model-mismatch", "withdrawal %d terms (%d, %d), state machine (%d, %d)", id, got.RequestAmount, got.MaxTxPrice, m.amount, m.maxPrice)
		}
		if m.status == "processing" || m.status == "paid" {
			if got.Receipt == nil || !bytes.Equal(got.Receipt.Txid, m.rTxid) || got.Receipt.Txout != m.rTxout || got.Receipt.Amount != m.rAmount {
				return failf("receipt", "receipt-model-mismatch", "withdrawal %d receipt %v, state machine %x:%d amount %d", id, got.Receipt, m.rTxid, m.rTxout, m.rAmount)
			}
		}
		if m.actions >= 2 {
			w.nt = true
		}
	}
	return nil
}

type newWd struct {
	m  *mWithdrawal
	ok bool
}

// previewRequests returns the model view after this block's requests (the
// execution-block message runs before the relayer transactions).
type wdView struct {
	status   string
	maxPrice uint64
	amount   uint64
	script   []byte
}

func (w *wdWorld) previewRequests(fresh []newWd, rbfs, cancels []WdRef) map[uint64]*wdView {
	v := map[uint64]*wdView{}
	for id, m := range w.wds {
		v[id] = &wdView{status: m.status, maxPrice: m.maxPrice, amount: m.amount, script: m.script}
	}
	for _, nw := range fresh {
		st := "pending"
		if !nw.ok {
			st = "canceled"
		}
		v[nw.m.id] = &wdView{status: st, maxPrice: nw.m.maxPrice, amount: nw.m.amount, script: nw.m.script}
	}
	for _, r := range rbfs {
		if x := v[uint64(r.Ref)]; x != nil && (x.status == "pending" || x.status == "processing") {
			x.maxPrice = r.Price
		}
	}
	for _, r := range cancels {
		if x := v[uint64(r.Ref)]; x != nil && x.status == "pending" {
			x.status = "canceling"
		}
	}
	return v
}

// sameHashOtherKind re-wraps the hash bytes of a standard script into another standard template.
func sameHashOtherKind(script []byte) []byte {
	switch {
	case len(script) == 34 && script[0] == 0x00 && script[1] == 0x20: // P2WSH -> P2TR
		return append([]byte{0x51, 0x20}, script[2:]...)
	case len(script) == 34 && script[0] == 0x51 && script[1] == 0x20: // P2TR -> P2WSH
		return append([]byte{0x00, 0x20}, script[2:]...)
	case len(script) == 22 && script[0] == 0x00 && script[1] == 0x14: // P2WPKH -> P2PKH
		return append(append([]byte{0x76, 0xa9, 0x14}, script[2:]...), 0x88, 0xac)
	case len(script) == 25 && script[0] == 0x76: // P2PKH -> P2SH
		return append(append([]byte{0xa9, 0x14}, script[3:23]...), 0x87)
	case len(script) == 23 && script[0] == 0xa9: // P2SH -> P2PKH
		return append(append([]byte{0x76, 0xa9, 0x14}, script[2:22]...), 0x88, 0xac)
	}
	return nil
}

func strangerScript(i int) []byte {
	return world.P2WPKHScript(world.Hash160([]byte(fmt.Sprintf("stranger-%d", i))))
}

func (w *wdWorld) buildTx(t *WdTx, rv world.RelayerView, view map[uint64]*wdView, addTx func(sdk.Msg, bool, func()) *Failure, o *Outcome) *Failure {
	f := w.f
	o.Classes = append(o.Classes, t.Kind)
	switch t.Kind {
	case "process", "replace":
		var ids []uint64
		var pid uint64
		var proc *mProcessing
		if t.Kind == "process" {
			// ids come from the withdrawals known before this block and those created in it
			var pool, fit []uint64
			for id, x := range view {
				pool = append(pool, id)
				if x.status == "pending" || x.status == "canceling" {
					fit = append(fit, id)
				}
			}
			if t.Bias && len(fit) > 0 {
				pool = fit
			}
			if len(pool) == 0 {
				return nil
			}
			sortU64(pool)
			for _, r := range t.Refs {
				ids = append(ids, pool[abs(r)%len(pool)])
			}
			if len(ids) == 0 {
				return nil
			}
		} else {
			if len(w.procIDs) == 0 {
				return nil
			}
			pid = w.procIDs[abs(t.PidRef)%len(w.procIDs)]
			proc = w.procs[pid]
			ids = proc.ids
		}
		ok := true
		var outs []*wire.TxOut
		var values []uint64
		seen := map[uint64]bool{}
		minPrice := ^uint64(0)
		for i, id := range ids {
			x := view[id]
			mut := 0
			if i < len(t.OutMut) {
				mut = t.OutMut[i] % 5
			}
			script := x.script
			if script == nil {
				script = strangerScript(int(id)) // undecodable address: nothing can match
			}
			value := x.amount / 2
			switch mut {
			case 1:
				script = strangerScript(1000 + int(id))
				ok = false
			case 2:
				value = x.amount + 1
				ok = false
			case 3:
				value = x.amount
			case 4:
				// the same hash / witness program under another script kind (P2WSH <-> P2TR, P2PKH <-> P2SH, P2WPKH -> P2PKH)
				if alt := sameHashOtherKind(script); alt != nil {
					script = alt
					ok = false
					o.Classes = append(o.Classes, "same-hash-other-script-kind")
				}
			}
			if t.Kind == "process" {
				if x.status != "pending" && x.status != "canceling" {
					ok = false
				}
				if seen[id] {
					ok = false
					w.nt = true
				}
				seen[id] = true
			} else if x.status != "processing" {
				ok = false
			}
			if x.maxPrice < minPrice {
				minPrice = x.maxPrice
			}
			outs = append(outs, wire.NewTxOut(int64(value), script))
			values = append(values, value)
		}
		switch t.Extra % 5 {
		case 4:
			// change to the key that was current before the last rotation (the genesis old key if there was none)
			k := w.oldKey
			if w.prevKey != nil {
				k = *w.prevKey
				o.Classes = append(o.Classes, "change-to-rotated-out-key")
				w.nt = true
			}
			outs = append(outs, wire.NewTxOut(4000, world.SystemScript(k)))
			ok = false
		case 1:
			outs = append(outs, wire.NewTxOut(4000, world.SystemScript(f.btcKey)))
		case 2:
			if t.FeeKind%3 == 0 && len(ids)%2 == 0 {
				outs = append(outs, wire.NewTxOut(4000, world.SystemScript(w.oldKey))) // a previous relayer key
			} else {
				outs = append(outs, wire.NewTxOut(4000, strangerScript(7)))
			}
			ok = false
		case 3:
			outs = append(outs, wire.NewTxOut(4000, world.SystemScript(f.btcKey)), wire.NewTxOut(4000, world.SystemScript(f.btcKey)))
			ok = false
		}
		raw := world.SerializeNoWitness(world.SpendTx(f.nextSalt(), outs...))
		if t.Kind == "replace" && t.SameTx {
			raw = proc.raws[abs(t.Cand)%len(proc.raws)]
			ok = false
		}
		size := uint64(len(raw))
		// fee so that the rate is below / exactly at / above the tightest user maximum
		if minPrice > 1<<31 {
			minPrice = 1 << 31
		}
		var fee uint64
		if t.Kind == "process" {
			switch t.FeeKind % 3 {
			case 0:
				fee = minPrice * size / 2
			case 1:
				fee = minPrice * size
			default:
				fee = minPrice*size + 1
				ok = false
			}
		} else {
			if t.FeeDelta <= 0 {
				ok = false // a replacement must pay strictly more
			}
			fee = uint64(int64(proc.fee) + int64(t.FeeDelta))
			if fee > minPrice*size {
				ok = false // above the user's current maximum rate
			}
		}
		if fee == 0 {
			ok = false
		}
		if len(ids) > 32 {
			ok = false
		}
		txid := world.DSha(raw)
		var body voteBody
		if t.Kind == "process" {
			body = voteBody{kind: kindProcess, ids: ids, tx: raw, fee: fee}
		} else {
			body = voteBody{kind: kindReplace, pid: pid, tx: raw, fee: fee}
		}
		msg, err := f.honestMsg(body, rv)
		if err != nil {
			return failf("fixture", "vote-build-failed", "%v", err)
		}
		idsCopy := append([]uint64{}, ids...)
		return addTx(msg, ok, func() {
			if t.Kind == "process" {
				p := &mProcessing{pid: w.nextPid, ids: idsCopy, txids: [][]byte{txid}, outs: [][]uint64{values}, raws: [][]byte{raw}, fee: fee}
				w.nextPid++
				w.procs[p.pid] = p
				w.procIDs = append(w.procIDs, p.pid)
				for i, id := range idsCopy {
					m := w.wds[id]
					m.actions++
					m.status, m.rTxid, m.rTxout, m.rAmount = "processing", txid, uint32(i), values[i]
				}
			} else {
				proc.txids = append(proc.txids, txid)
				proc.outs = append(proc.outs, values)
				proc.raws = append(proc.raws, raw)
				proc.fee = fee
				for i, id := range idsCopy {
					m := w.wds[id]
					m.actions++
					m.rTxid, m.rAmount = txid, values[i]
				}
			}
		})
	case "rotate":
		// a quorum-voted new relayer key: change outputs must pay the new key from now on
		body := f.bodyPubkey()
		msg, err := f.honestMsg(body, rv)
		if err != nil {
			return failf("fixture", "vote-build-failed", "%v", err)
		}
		return addTx(msg, true, func() {
			old := f.btcKey
			w.prevKey = &old
			f.consume(body)
		})
	case "approve":
		var pool, fit []uint64
		for id, x := range view {
			pool = append(pool, id)
			if x.status == "canceling" {
				fit = append(fit, id)
			}
		}
		if t.Bias && len(fit) > 0 {
			pool = fit
		}
		if len(pool) == 0 || len(t.Refs) == 0 {
			return nil
		}
		sortU64(pool)
		var ids []uint64
		ok := true
		seen := map[uint64]bool{}
		for _, r := range t.Refs {
			id := pool[abs(r)%len(pool)]
			ids = append(ids, id)
			if view[id].status != "canceling" || seen[id] {
				ok = false
			}
			seen[id] = true
		}
		idsCopy := append([]uint64{}, ids...)
		return addTx(&bitcointypes.MsgApproveCancellation{Proposer: rv.Proposer, Id: ids}, ok, func() {
			for _, id := range idsCopy {
				w.wds[id].actions++
				w.wds[id].status = "canceled"
			}
		})
	case "finalize":
		if len(w.procIDs) == 0 {
			return nil
		}
		pid := w.procIDs[abs(t.PidRef)%len(w.procIDs)]
		proc := w.procs[pid]
		ok := true
		ci := abs(t.Cand) % len(proc.txids)
		candTxid, candRaw := proc.txids[ci], proc.raws[ci]
		if t.Cand < 0 {
			candRaw = world.SerializeNoWitness(world.SpendTx(f.nextSalt(), wire.NewTxOut(1, strangerScript(1))))
			candTxid = world.DSha(candRaw)
			ok = false
			if t.Cand%2 == 0 {
				// a foreign id claimed over the genuine inclusion proof of the newest voted candidate
				candRaw = proc.raws[len(proc.raws)-1]
				o.Classes = append(o.Classes, "foreign-id-over-genuine-proof")
			}
		}
		if ci != len(proc.txids)-1 {
			w.nt = true // finalising an earlier candidate
		}
		// mine a block that contains the candidate
		height := w.btcTip + 1
		var mtx wire.MsgTx
		if err := mtx.DeserializeNoWitness(bytes.NewReader(candRaw)); err != nil {
			return failf("fixture", "candidate-undecodable", "%v", err)
		}
		txsIn := []*wire.MsgTx{world.CoinbaseTx(height), world.FillerTx(height, 1), &mtx, world.FillerTx(height, 3)}
		pos := 2
		if t.AtZero {
			txsIn = []*wire.MsgTx{&mtx, world.FillerTx(height, 1), world.FillerTx(height, 2)}
			pos = 0
			ok = false // a block's first transaction is the coinbase; it cannot be a withdrawal
		}
		blk := world.NewBtcBlock(height, w.prevHash, txsIn)
		header := blk.Header
		switch t.Mined % 3 {
		case 0:
			hb := voteBody{kind: kindHashes, start: height, hashes: [][]byte{blk.Hash}}
			hm, err := f.honestMsg(hb, rv)
			if err != nil {
				return failf("fixture", "vote-build-failed", "%v", err)
			}
			if fl := addTx(hm, true, func() { w.btcTip, w.prevHash = height, blk.Hash }); fl != nil {
				return fl
			}
		case 1:
			ok = false // the block hash was never voted
		case 2:
			hb := voteBody{kind: kindHashes, start: height, hashes: [][]byte{blk.Hash}}
			hm, err := f.honestMsg(hb, rv)
			if err != nil {
				return failf("fixture", "vote-build-failed", "%v", err)
			}
			if fl := addTx(hm, true, func() { w.btcTip, w.prevHash = height, blk.Hash }); fl != nil {
				return fl
			}
			header = append([]byte{}, header...)
			header[70] ^= 1
			ok = false
		}
		idx := uint32(pos)
		proof := blk.Tree.Path(pos)
		switch t.Pos % 4 {
		case 1:
			if pos != 0 {
				idx = 0
				ok = false
			}
		case 2:
			idx = uint32(pos) + 1<<uint(blk.Tree.Depth())
			ok = false
		case 3:
			idx = uint32(pos) ^ 1
			ok = false
		}
		switch t.Proof % 4 {
		case 1:
			proof = append([]byte{}, proof...)
			proof[5] ^= 0x10
			ok = false
		case 2:
			proof = nil
			ok = false
		case 3:
			// the claimed id is a voted candidate, but the block and proof are those of ANOTHER candidate of the batch
			if t.Cand >= 0 && len(proc.txids) >= 2 && !t.AtZero && t.Mined%3 == 0 {
				candTxid = proc.txids[(ci+1)%len(proc.txids)]
				ci = (ci + 1) % len(proc.txids)
				ok = false
				o.Classes = append(o.Classes, "candidate-id-over-another-candidates-proof")
			}
		}
		for _, id := range proc.ids {
			if view[id].status != "processing" {
				ok = false
			}
		}
		msg := &bitcointypes.MsgFinalizeWithdrawal{Proposer: rv.Proposer, Pid: pid, Txid: candTxid, BlockNumber: height, TxIndex: idx, IntermediateProof: proof, BlockHeader: header}
		return addTx(msg, ok, func() {
			for i, id := range proc.ids {
				m := w.wds[id]
				m.actions++
				m.status, m.rTxid, m.rAmount = "paid", candTxid, proc.outs[ci][i]
			}
			delete(w.procs, pid)
			for i, p := range w.procIDs {
				if p == pid {
					w.procIDs = append(w.procIDs[:i:i], w.procIDs[i+1:]...)
					break
				}
			}
		})
	}
	return nil
}

func sortU64(x []uint64) {
	for i := 1; i < len(x); i++ {
		for j := i; j > 0 && x[j] < x[j-1]; j-- {
			x[j], x[j-1] = x[j-1], x[j]
		}
	}
}

func runWdCase(c WdCase) Outcome {
	o := Outcome{Classes: []string{fmt.Sprintf("n=%d", c.N)}}
	w, err := newWdWorld(c)
	if err != nil {
		o.Fail = failf("fixture", "fixture-failed", "%v", err)
		return o
	}
	defer w.f.close()
	for bi, b := range c.Blocks {
		if fl := w.step(bi, b, &o); fl != nil {
			fl.Detail = fmt.Sprintf("block %d: %s", bi, fl.Detail)
			o.Fail = fl
			return o
		}
		o.Evals++
	}
	// drain: everything terminal must have produced exactly one notice
	for i := 0; i < 6; i++ {
		if fl := w.step(len(c.Blocks)+i, WdBlock{DT: 5}, &o); fl != nil {
			o.Fail = fl
			return o
		}
	}
	for id, m := range w.wds {
		n := w.paid[id] + w.refunded[id]
		terminal := m.status == "paid" || m.status == "canceled"
		if terminal && n != 1 {
			o.Fail = failf("one-terminal-outcome", "terminal-without-notice", "withdrawal %d is %s but the execution layer got %d notices", id, m.status, n)
			return o
		}
		if !terminal && n != 0 {
			o.Fail = failf("one-terminal-outcome", "notice-for-open-withdrawal", "withdrawal %d is %s but the execution layer got %d notices", id, m.status, n)
			return o
		}
		if m.status == "paid" && w.paid[id] != 1 || m.status == "canceled" && w.refunded[id] != 1 {
			o.Fail = failf("one-terminal-outcome", "wrong-notice-kind", "withdrawal %d is %s: %d paid, %d refund notices", id, m.status, w.paid[id], w.refunded[id])
			return o
		}
	}
	o.NonTrivial = w.nt
	return o
}

func genWdCase(t *rapid.T) WdCase {
	c := WdCase{N: rapid.IntRange(0, 3).Draw(t, "n")}
	nb := rapid.IntRange(5, 40).Draw(t, "nblocks")
	amounts := []uint64{2000, 100_000, 1_000_000, 5_000_000_000}
	prices := []uint64{1, 2, 10, 50, 1 << 20}
	for i := 0; i < nb; i++ {
		b := WdBlock{DT: 5}
		if rapid.IntRange(0, 2).Draw(t, "wdRoll") == 0 || i == 0 {
			k := rapid.IntRange(1, 4).Draw(t, "nwd")
			for j := 0; j < k; j++ {
				kind := rapid.SampledFrom([]int{0, 0, 0, 1, 2, 3, 4, 5, 6, 7}).Draw(t, "addrKind")
				b.Withdraws = append(b.Withdraws, WdReq{AddrKind: kind, Amount: rapid.SampledFrom(amounts).Draw(t, "amount"), Price: rapid.SampledFrom(prices).Draw(t, "price")})
			}
		}
		if rapid.IntRange(0, 3).Draw(t, "rbfRoll") == 0 {
			b.RBFs = append(b.RBFs, WdRef{Ref: rapid.IntRange(0, 40).Draw(t, "rbfRef"), Price: rapid.SampledFrom(prices).Draw(t, "rbfPrice")})
		}
		if rapid.IntRange(0, 3).Draw(t, "cancelRoll") == 0 {
			b.Cancels = append(b.Cancels, WdRef{Ref: rapid.IntRange(0, 40).Draw(t, "cancelRef")})
		}
		if rapid.IntRange(0, 4).Draw(t, "txRoll") > 0 {
			tx := &WdTx{Kind: rapid.SampledFrom([]string{"process", "process", "process", "replace", "replace", "finalize", "finalize", "finalize", "approve", "approve", "rotate"}).Draw(t, "kind"),
				PidRef: rapid.IntRange(0, 10).Draw(t, "pidRef")}
			nrefs := rapid.SampledFrom([]int{1, 1, 2, 3, 5}).Draw(t, "nrefs")
			for j := 0; j < nrefs; j++ {
				tx.Refs = append(tx.Refs, rapid.IntRange(0, 40).Draw(t, "ref"))
				m := 0
				if rapid.IntRange(0, 7).Draw(t, "outMutRoll") == 0 {
					m = rapid.IntRange(1, 4).Draw(t, "outMut")
				}
				tx.OutMut = append(tx.OutMut, m)
			}
			tx.Extra = rapid.SampledFrom([]int{0, 0, 1, 1, 1, 2, 3, 4}).Draw(t, "extra")
			tx.FeeKind = rapid.SampledFrom([]int{0, 0, 0, 1, 2}).Draw(t, "feeKind")
			tx.FeeDelta = rapid.SampledFrom([]int{1, 1, 5, 0, -1}).Draw(t, "feeDelta")
			tx.SameTx = rapid.IntRange(0, 9).Draw(t, "sameTx") == 0
			tx.Bias = rapid.IntRange(0, 2).Draw(t, "bias") > 0
			tx.Cand = rapid.SampledFrom([]int{0, 0, 1, 2, -1, -2}).Draw(t, "cand")
			if rapid.IntRange(0, 2).Draw(t, "cleanFinalize") > 0 {
				tx.Mined, tx.Pos, tx.Proof, tx.AtZero = 0, 0, 0, false
			} else {
				tx.Mined = rapid.IntRange(0, 2).Draw(t, "mined")
				tx.Pos = rapid.IntRange(0, 3).Draw(t, "pos")
				tx.Proof = rapid.IntRange(0, 3).Draw(t, "proof")
				tx.AtZero = rapid.IntRange(0, 5).Draw(t, "atZero") == 0
			}
			b.Tx = tx
		}
		c.Blocks = append(c.Blocks, b)
	}
	return c
}

func TestC05_Withdrawals(t *testing.T) {
	RunProp(t, Prop[WdCase]{
		ID: "C05", Name: "lifecycle", Quick: 640, Thor: 10_000,
		Gen: genWdCase, Run: runWdCase,
		Rule: "histories of 5-40 blocks: execution-layer requests Withdraw (fresh id; P2WPKH/P2WSH/P2TR/P2PKH/P2SH of the configured network, garbage, pay-to-pubkey hex, other-network address; amount; maximum fee rate), fee updates and cancellations over earlier ids, and relayer messages Process (1-5 ids of any status with duplicates; per output right/wrong script/the same hash under another script kind, value below/equal/above the request; 0/1/2 extra outputs paying the current key, an old key, the key rotated out by an earlier voted NewPubkey of the same history, or a stranger; fee giving a rate below/at/above the tightest maximum), Replace (fee lower/equal/higher, identical transaction), Finalize (original / fee-bumped / foreign txid, also claimed over the genuine proof of the newest candidate; block voted / not voted / wrong header; position true / 0 / alias / neighbour / mined as first transaction; proof genuine / flipped / empty / that of another candidate of the batch) and ApproveCancellation, all with honest votes; reference state machine decides every transaction and every Query/Withdrawal record; per id the paid/refund notices received by the fake execution layer are <= 1 at all times, = 1 after a drain iff terminal, of the right kind and with the finalised candidate's txid/output/amount; non-trivial = some id received >= 2 competing actions, a duplicate id in a batch, or an earlier candidate finalised; evaluations count blocks",
	})
}
