package props

// C01 — voted relayer proposals need a genuine two-thirds quorum.

import (
	"fmt"
	"sort"
	"testing"
	"time"

	sdk "github.com/cosmos/cosmos-sdk/types"
	bitcoinkeeper "github.com/goatnetwork/goat/x/bitcoin/keeper"
	bitcointypes "github.com/goatnetwork/goat/x/bitcoin/types"
	relayertypes "github.com/goatnetwork/goat/x/relayer/types"
	"pgregory.net/rapid"
	"verif/harness/world"
)

// QuorumCase: one group configuration and a batch of votes tried against it.
type QuorumCase struct {
	N       int        `json:"n"` // voters (group = n voters + proposer)
	Epoch   uint64     `json:"epoch"`
	Seq     uint64     `json:"seq"`
	Schnorr bool       `json:"schnorr"`
	Votes   []VoteSpec `json:"votes"`
}

func subset(t *rapid.T, n, k int, label string) []int {
	if k > n {
		k = n
	}
	perm := rapid.Permutation(seqInts(n)).Draw(t, label)
	out := append([]int{}, perm[:k]...)
	sort.Ints(out)
	return out
}

func seqInts(n int) []int {
	out := make([]int, n)
	for i := range out {
		out[i] = i
	}
	return out
}

func honestSigners(marks []int) []int {
	s := []int{0}
	for _, m := range marks {
		s = append(s, m+1)
	}
	return s
}

var voteClasses = []string{
	"honest", "honest", "honest", "one-below", "phantom-pad", "phantom-pad", "phantom-extra", "drop-signer", "extra-signer",
	"swap-stranger", "dup-share", "wrong-ctx", "wrong-ctx", "msg-fields", "msg-proposer", "tamper", "tamper", "malformed", "free",
	"reuse", "reuse", "wrap-256",
}

func genVoteSpec(t *rapid.T, n int) VoteSpec {
	th := threshold(n)
	s := VoteSpec{Kind: rapid.IntRange(0, numVoteKinds-1).Draw(t, "kind"), BodyArg: rapid.IntRange(0, 7).Draw(t, "bodyArg"), BitmapBytes: -1}
	s.Class = rapid.SampledFrom(voteClasses).Draw(t, "class")
	k := th - 1
	if n > k {
		k = rapid.IntRange(th-1, n).Draw(t, "k")
	}
	honest := func() {
		s.Marks = subset(t, n, k, "marks")
		s.Signers = honestSigners(s.Marks)
		if n > 0 && rapid.IntRange(0, 3).Draw(t, "wide") == 0 {
			s.BitmapBytes = 8 * rapid.IntRange((n+63)/64, 4).Draw(t, "bmWords")
		}
	}
	honest()
	if n > 255 && (s.Class == "phantom-pad" || s.Class == "phantom-extra") {
		s.Class = "honest" // no position beyond the voter list fits into a 32-byte bitmap
	}
	switch s.Class {
	case "honest":
	case "one-below":
		if th >= 2 {
			s.Marks = subset(t, n, th-2, "marks1")
			s.Signers = honestSigners(s.Marks)
		} else {
			s.Class = "honest"
		}
	case "phantom-pad":
		// fewer real signers than needed, count padded with positions beyond the voter list
		if th >= 2 {
			real := rapid.IntRange(0, th-2).Draw(t, "real")
			s.Marks = subset(t, n, real, "marksReal")
			s.Signers = honestSigners(s.Marks)
			s.BitmapBytes = 32
			pad := th - 1 - real
			if extra := n - (real + pad); extra > 0 && rapid.Bool().Draw(t, "padMore") {
				pad += rapid.IntRange(0, extra).Draw(t, "padExtra")
			}
			for i := 0; i < pad; i++ {
				s.Marks = append(s.Marks, rapid.IntRange(n, 255).Draw(t, "phantom"))
			}
		} else {
			s.Class = "honest"
		}
	case "phantom-extra":
		s.BitmapBytes = 32
		s.Marks = append(s.Marks, rapid.IntRange(n, 255).Draw(t, "phantom"))
	case "drop-signer":
		i := rapid.IntRange(0, len(s.Signers)-1).Draw(t, "drop")
		s.Signers = append(append([]int{}, s.Signers[:i]...), s.Signers[i+1:]...)
	case "extra-signer":
		extra := n + 1 + rapid.IntRange(1, 5).Draw(t, "stranger")
		if len(s.Marks) < n && rapid.Bool().Draw(t, "unmarkedMember") {
			in := map[int]bool{}
			for _, m := range s.Marks {
				in[m] = true
			}
			for v := 0; v < n; v++ {
				if !in[v] {
					extra = v + 1
					break
				}
			}
		}
		s.Signers = append(s.Signers, extra)
	case "swap-stranger":
		i := rapid.IntRange(0, len(s.Signers)-1).Draw(t, "swap")
		s.Signers[i] = n + 1 + rapid.IntRange(1, 5).Draw(t, "stranger")
	case "dup-share":
		i := rapid.IntRange(0, len(s.Signers)-1).Draw(t, "dup")
		s.Signers = append(s.Signers, s.Signers[i])
	case "wrong-ctx":
		switch rapid.IntRange(0, 4).Draw(t, "ctxField") {
		case 0:
			s.DocChain = true
		case 1:
			s.DocSeqDelta = rapid.SampledFrom([]int{-1, 1, 2}).Draw(t, "d")
		case 2:
			s.DocEpDelta = rapid.SampledFrom([]int{-1, 1, 2}).Draw(t, "d")
		case 3:
			s.DocMethod = rapid.IntRange(1, 4).Draw(t, "method")
		case 4:
			if n > 0 {
				s.DocProposer = rapid.IntRange(1, n).Draw(t, "prop")
			} else {
				s.DocChain = true
			}
		}
	case "msg-fields":
		d := rapid.SampledFrom([]int{-1, 1, 3}).Draw(t, "d")
		follow := rapid.Bool().Draw(t, "docFollows")
		if rapid.Bool().Draw(t, "seqOrEpoch") {
			s.MsgSeqDelta = d
			if follow {
				s.DocSeqDelta = d
			}
		} else {
			s.MsgEpDelta = d
			if follow {
				s.DocEpDelta = d
			}
		}
	case "msg-proposer":
		if n > 0 {
			s.MsgProposer = rapid.IntRange(1, n).Draw(t, "prop")
			if rapid.Bool().Draw(t, "docFollows") {
				s.DocProposer = s.MsgProposer
			}
		} else {
			s.Class = "honest"
		}
	case "tamper":
		s.Tamper = rapid.IntRange(1, 9).Draw(t, "tamper")
	case "malformed":
		switch rapid.IntRange(0, 2).Draw(t, "mal") {
		case 0:
			s.BitmapBytes = rapid.SampledFrom([]int{1, 2, 3, 4, 5, 6, 7, 9, 12, 15, 17, 31, 33}).Draw(t, "oddLen")
		case 1:
			s.BitmapBytes = rapid.SampledFrom([]int{40, 48, 64}).Draw(t, "bigLen")
		default:
			s.SigKind = rapid.IntRange(1, 4).Draw(t, "sig")
		}
	case "wrap-256":
		// a bitmap longer than 32 bytes (two of the five messages do not bound it): one real signer short of the
		// threshold, the missing count made up by a mark at 256+p while voter p signs twice
		if th >= 2 && n >= 1 {
			s.Marks = subset(t, n, th-2, "marksW")
			s.Signers = honestSigners(s.Marks)
			s.BitmapBytes = rapid.SampledFrom([]int{40, 48, 64}).Draw(t, "wrapLen")
			p := rapid.IntRange(0, n-1).Draw(t, "wrapP")
			if len(s.Marks) > 0 && rapid.Bool().Draw(t, "wrapMarked") {
				p = s.Marks[rapid.IntRange(0, len(s.Marks)-1).Draw(t, "wrapIdx")]
			}
			if 256+p < s.BitmapBytes*8 {
				s.Marks = append(s.Marks, 256+p)
				s.Signers = append(s.Signers, p+1)
			}
			s.Kind = rapid.SampledFrom([]int{kindProcess, kindReplace, kindProcess, kindReplace, s.Kind}).Draw(t, "wrapKind")
		} else {
			s.Class = "honest"
		}
	case "reuse":
		// the bitmap and aggregate signature of an earlier valid vote of this case, relabelled for the current
		// sequence and epoch, under another body (falls back to an honest vote when there is no earlier one)
		s.Reuse = rapid.IntRange(1, 6).Draw(t, "reuse")
	case "free":
		bm := rapid.SampledFrom([]int{0, 8, 8, 16, 24, 32}).Draw(t, "bm")
		s.BitmapBytes = bm
		s.Marks = rapid.SliceOfN(rapid.IntRange(0, max(bm*8-1, 0)), 0, n+2).Draw(t, "freeMarks")
		s.Signers = rapid.SliceOfN(rapid.IntRange(0, n+3), 1, n+3).Draw(t, "freeSigners")
	}
	return s
}

var groupSizes = rapid.OneOf(
	rapid.IntRange(0, 8), rapid.IntRange(0, 8), rapid.IntRange(0, 8), rapid.IntRange(0, 40),
	rapid.SampledFrom([]int{63, 64, 65, 127, 128, 255, 256}),
)

func genQuorumCase(maxVotes int) func(t *rapid.T) QuorumCase {
	return func(t *rapid.T) QuorumCase {
		c := QuorumCase{
			N:       groupSizes.Draw(t, "n"),
			Epoch:   rapid.OneOf(rapid.Uint64Range(0, 5), rapid.Uint64Range(1<<40, 1<<40+5)).Draw(t, "epoch"),
			Seq:     rapid.OneOf(rapid.Uint64Range(0, 5), rapid.Uint64Range(1<<40, 1<<40+5)).Draw(t, "seq"),
			Schnorr: rapid.Bool().Draw(t, "schnorr"),
		}
		nv := maxVotes
		if c.N > 40 {
			nv = max(2, maxVotes/8) // large groups are expensive (BLS), keep them rare and short
		}
		k := rapid.IntRange(1, nv).Draw(t, "votes")
		for i := 0; i < k; i++ {
			v := genVoteSpec(t, c.N)
			v.Reimport = i > 0 && rapid.IntRange(0, 7).Draw(t, "reimport") == 0 // used by the app slice only
			c.Votes = append(c.Votes, v)
		}
		return c
	}
}

// callVotedHandler invokes the registered message handler; a panic is what the
// transaction runner would recover into a failed transaction.
func callVotedHandler(n *world.Node, ctx sdk.Context, msg sdk.Msg) (err error) {
	defer func() {
		if r := recover(); r != nil {
			err = fmt.Errorf("panic: %v", r)
		}
	}()
	srv := bitcoinkeeper.NewMsgServerImpl(n.App.BitcoinKeeper)
	switch m := msg.(type) {
	case *bitcointypes.MsgNewBlockHashes:
		_, err = srv.NewBlockHashes(ctx, m)
	case *bitcointypes.MsgNewPubkey:
		_, err = srv.NewPubkey(ctx, m)
	case *bitcointypes.MsgProcessWithdrawal:
		_, err = srv.ProcessWithdrawal(ctx, m)
	case *bitcointypes.MsgReplaceWithdrawal:
		_, err = srv.ReplaceWithdrawal(ctx, m)
	case *bitcointypes.MsgNewConsolidation:
		_, err = srv.NewConsolidation(ctx, m)
	default:
		err = fmt.Errorf("unexpected message %T", msg)
	}
	return err
}

func quorumSignature(v *builtVote) string {
	switch v.reason {
	case "bitmap:mark-beyond-voter-list":
		return "accepted/mark-beyond-voter-list"
	case "":
		return "honest-quorum-rejected"
	}
	return "accepted/" + v.reason
}

func runQuorumHandler(c QuorumCase) Outcome {
	o := Outcome{Classes: []string{fmt.Sprintf("n=%s", sizeBucket(c.N))}}
	f, err := newVoteFixture(c.N, c.Epoch, c.Seq, c.Schnorr)
	if err != nil {
		o.Fail = failf("fixture", "fixture-failed", "%v", err)
		return o
	}
	defer f.close()
	var prior []priorVote
	for i, vs := range c.Votes {
		v, err := f.buildVote(vs)
		if err != nil {
			o.Fail = failf("fixture", "vote-build-failed", "vote %d: %v", i, err)
			return o
		}
		if f.reuseVote(v, vs, prior) {
			o.Classes = append(o.Classes, "signature-reused")
		}
		ctx, _ := f.sim.Node.CommittedCtx().CacheContext()
		herr := callVotedHandler(f.sim.Node, ctx, v.msg)
		if herr == nil && v.mustAccept && !v.unspecified {
			prior = append(prior, f.priorOf(v))
		}
		o.Evals++
		o.Classes = append(o.Classes, vs.Class+"/"+kindNames[vs.Kind%numVoteKinds])
		if c.N >= 1 && v.genuine {
			o.NonTrivial = true
		}
		accepted := herr == nil
		if v.unspecified {
			o.Classes = append(o.Classes, "unspecified")
			continue
		}
		if accepted != v.mustAccept {
			o.Fail = failf("quorum", quorumSignature(v), "vote %d (%s, %s, n=%d, threshold=%d): handler accepted=%v (err=%v), reference says accept=%v (broken clause: %q)",
				i, vs.Class, kindNames[vs.Kind%numVoteKinds], c.N, threshold(c.N), accepted, herr, v.mustAccept, v.reason)
			return o
		}
	}
	return o
}

func sizeBucket(n int) string {
	switch {
	case n == 0:
		return "0"
	case n <= 3:
		return "1-3"
	case n <= 8:
		return "4-8"
	case n <= 40:
		return "9-40"
	}
	return ">40"
}

func TestC01_Handler(t *testing.T) {
	RunProp(t, Prop[QuorumCase]{
		ID: "C01", Name: "handler", Quick: 320, Thor: 8000,
		Gen: genQuorumCase(24), Run: runQuorumHandler,
		Rule: "per case: a relayer group (0..256 voters, chosen epoch/sequence, ECDSA or Schnorr bridge key) established by genesis plus two real blocks, then up to 24 votes built per class (honest at/above threshold, one below, phantom marks beyond the voter list, signer set != marks, wrong chain/sequence/epoch/method/proposer, payload changed after signing, bitmap and signature of an earlier valid vote of the same case relabelled for the current sequence/epoch under another body, malformed bitmap/signature, a 40-64 byte bitmap with a mark at 256+p while voter p signs twice, free-form) and given to the registered handler of each of the 5 voted messages on a branch of committed state; oracle = reference quorum predicate; non-trivial = group has >= 1 voter and the vote contains a genuine member share for the right sequence and epoch; evaluations count votes",
	})
}

// runQuorumApp delivers the votes as transactions in blocks and adds the
// "changes no state at all" clause through the in-place twin execution.
func runQuorumApp(c QuorumCase) Outcome {
	o := Outcome{Classes: []string{fmt.Sprintf("n=%s", sizeBucket(c.N))}}
	f, err := newVoteFixture(c.N, c.Epoch, c.Seq, c.Schnorr)
	if err != nil {
		o.Fail = failf("fixture", "fixture-failed", "%v", err)
		return o
	}
	defer f.close()
	var prior []priorVote
	for i, vs := range c.Votes {
		if vs.Kind%numVoteKinds == kindProcess && len(f.pending) == 0 {
			continue
		}
		v, err := f.buildVote(vs)
		if err != nil {
			o.Fail = failf("fixture", "vote-build-failed", "vote %d: %v", i, err)
			return o
		}
		if f.reuseVote(v, vs, prior) {
			o.Classes = append(o.Classes, "signature-reused")
		}
		if vs.Reimport && i > 0 {
			// the chain is restarted from its exported state; group, epoch and sequence must carry over, so the vote
			// built above (for the sequence before the restart) keeps its verdict
			if err := f.sim.Reimport(); err != nil {
				o.Fail = failf("re-import", "re-import-failed", "vote %d: %v", i, err)
				return o
			}
			o.Classes = append(o.Classes, "reimported")
			if b, txs, err := f.sim.Begin(world.StepOpts{DT: 5 * time.Second, Proposer: -1}); err == nil {
				if _, err := f.sim.Exec(b, txs, false); err != nil {
					o.Fail = failf("block-processing", "block-failed", "first block after re-import: %v", err)
					return o
				}
			}
		}
		raw, err := f.sim.Node.Tx(v.signer, 0, world.TxOpts{}, v.msg)
		if err != nil {
			o.Fail = failf("fixture", "tx-build-failed", "vote %d: %v", i, err)
			return o
		}
		before, _ := f.sim.Node.RelayerView()
		b, txs, err := f.sim.Begin(world.StepOpts{DT: 5 * time.Second, Proposer: -1})
		if err != nil {
			o.Fail = failf("fixture", "begin-failed", "%v", err)
			return o
		}
		tw, err := f.sim.ExecTwin(b, txs, append(append([][]byte{}, txs...), raw))
		if err != nil {
			o.Fail = failf("block-processing", "block-failed", "vote %d (%s): %v", i, vs.Class, err)
			return o
		}
		o.Evals++
		o.Classes = append(o.Classes, vs.Class+"/"+kindNames[vs.Kind%numVoteKinds])
		if c.N >= 1 && v.genuine {
			o.NonTrivial = true
		}
		res := tw.With.TxResults[len(tw.With.TxResults)-1]
		accepted := res.Code == 0
		if accepted != v.mustAccept && !v.unspecified {
			o.Fail = failf("quorum", quorumSignature(v), "vote %d (%s, %s, n=%d, threshold=%d): tx code=%d log=%q, reference says accept=%v (broken clause: %q)",
				i, vs.Class, kindNames[vs.Kind%numVoteKinds], c.N, threshold(c.N), res.Code, res.Log, v.mustAccept, v.reason)
			return o
		}
		after, _ := f.sim.Node.RelayerView()
		if !accepted {
			if tw.DumpWith.Hash() != tw.DumpWithout.Hash() {
				o.Fail = failf("rejected-changes-nothing", "rejected-vote-changed-state", "vote %d (%s): rejected transaction changed module state: %v", i, vs.Class, tw.DumpWith.Diff(tw.DumpWithout))
				return o
			}
			if after.Sequence != before.Sequence {
				o.Fail = failf("rejected-changes-nothing", "rejected-vote-advanced-sequence", "vote %d: sequence %d -> %d", i, before.Sequence, after.Sequence)
				return o
			}
		} else {
			if tw.DumpWith.Hash() == tw.DumpWithout.Hash() || after.Sequence != before.Sequence+1 {
				o.Fail = failf("accepted-takes-effect", "accepted-vote-without-effect", "vote %d (%s): accepted but sequence %d -> %d", i, vs.Class, before.Sequence, after.Sequence)
				return o
			}
			f.consume(v.body)
			if v.mustAccept {
				prior = append(prior, f.priorOf(v))
			}
		}
	}
	return o
}

func TestC01_App(t *testing.T) {
	RunProp(t, Prop[QuorumCase]{
		ID: "C01", Name: "app", Quick: 128, Thor: 3000,
		Gen: genQuorumCase(12), Run: runQuorumApp,
		Rule: "same vote classes, each delivered as a signed transaction in its own block through FinalizeBlock; the block is executed twice in place (without / with the transaction): tx code 0 <=> reference predicate, a rejected vote leaves the four module stores byte-identical to the execution without it and the sequence unchanged, an accepted one advances the sequence by one; non-trivial as for the handler property",
	})
}

// ThresholdCase compares Threshold() with the integer formula.
type ThresholdCase struct {
	N int `json:"n"`
}

func TestC01_Threshold(t *testing.T) {
	RunEnum(t, Prop[ThresholdCase]{
		ID: "C01", Name: "threshold",
		Run: func(c ThresholdCase) Outcome {
			r := &relayertypes.Relayer{Voters: make([]string, c.N)}
			o := Outcome{NonTrivial: true, Key: fmt.Sprint(c.N), Classes: []string{"threshold"}}
			if got, want := r.Threshold(), threshold(c.N); got != want {
				o.Fail = failf("threshold", "threshold-formula", "n=%d: Threshold()=%d, ceil(2(n+1)/3)=%d", c.N, got, want)
			}
			return o
		},
		Rule: "exhaustive n = 0..4096: Relayer.Threshold() == least t with 3t >= 2(n+1)",
	}, func(yield func(ThresholdCase) bool) {
		for n := 0; n <= 4096; n++ {
			if !yield(ThresholdCase{N: n}) {
				return
			}
		}
	})
}

// C01 under group changes: the relayer world (elections, joins, removals incl. the proposer's) with votes of every
// class signed by / aimed at the group as it is at that moment.
func TestC01_GroupChanges(t *testing.T) {
	RunProp(t, Prop[RelCase]{
		ID: "C01", Name: "group-changes", Quick: 320, Thor: 6000,
		Gen:  genRelCase("C01"),
		Run:  func(c RelCase) Outcome { return runRelayer(c, "C01") },
		Rule: "relayer-world histories of 6-40 blocks (add/remove requests incl. removal of the proposer together with leading voters, registrations, acceptances, elections, restarts from the exported state) in which half of the transactions are votes of the C01 classes resolved against the group as it is then; the reference predicate additionally requires that proposer and marked voters are pairwise distinct members, and a registration with a forged element (in particular without a valid proof of possession of the vote key, on which the soundness of the aggregate check rests) must be refused; non-trivial = a vote was decided after at least one election; evaluations count blocks",
	})
}
