package props

// Native go test -fuzz targets (thorough tier).  The semantic oracle sits inside
// every target; a saved crasher under testdata/fuzz/<Target>/ is the replay file.

import (
	"bytes"
	"crypto/sha256"
	"math/big"
	"testing"
	"time"

	abci "github.com/cometbft/cometbft/abci/types"
	bitcointypes "github.com/goatnetwork/goat/x/bitcoin/types"
	"verif/harness/world"
)

func FuzzC04Merkle(f *testing.F) {
	tree := world.NewMerkleTree(leavesFor(5, 1))
	f.Add(tree.Levels[0][0], tree.Root(), tree.Path(0), uint32(0))
	f.Add(tree.Levels[0][4], tree.Root(), tree.Path(4), uint32(4))
	f.Add(tree.Levels[0][4], tree.Root(), tree.Path(4), uint32(5))
	f.Add(tree.Levels[0][0], tree.Root(), tree.Path(0), uint32(8))
	f.Add(make([]byte, 32), make([]byte, 32), []byte{}, uint32(1))
	f.Add(make([]byte, 31), make([]byte, 33), make([]byte, 65), uint32(1<<31))
	f.Fuzz(func(t *testing.T, leaf, root, path []byte, pos uint32) {
		// half of the time make the fold match so that only the position clause decides
		if len(leaf) == 32 && len(path)%32 == 0 && len(root) > 0 && root[0]&1 == 1 {
			cur := leaf
			for i := 0; i < len(path)/32; i++ {
				node := path[i*32 : (i+1)*32]
				var buf []byte
				if (pos>>uint(i))&1 == 0 {
					buf = append(append(buf, cur...), node...)
				} else {
					buf = append(append(buf, node...), cur...)
				}
				cur = world.DSha(buf)
			}
			root = cur
		}
		got := bitcointypes.VerifyMerkelProof(leaf, root, path, pos)
		want := refMerkle(leaf, root, path, pos)
		if got != want {
			t.Fatalf("VerifyMerkelProof=%v reference=%v (leaf %d bytes, root %d bytes, path %d bytes, position %d)", got, want, len(leaf), len(root), len(path), pos)
		}
	})
}

// base58CheckDecode is the inverse of base58CheckEncode (independent of btcutil).
func base58CheckDecode(s string) (version byte, payload []byte, ok bool) {
	x := new(big.Int)
	for _, c := range []byte(s) {
		i := bytes.IndexByte([]byte(b58Alphabet), c)
		if i < 0 {
			return 0, nil, false
		}
		x.Mul(x, big.NewInt(58))
		x.Add(x, big.NewInt(int64(i)))
	}
	raw := x.Bytes()
	for _, c := range []byte(s) {
		if c != b58Alphabet[0] {
			break
		}
		raw = append([]byte{0}, raw...)
	}
	if len(raw) < 5 {
		return 0, nil, false
	}
	body, sum := raw[:len(raw)-4], raw[len(raw)-4:]
	h1 := sha256.Sum256(body)
	h2 := sha256.Sum256(h1[:])
	if !bytes.Equal(h2[:4], sum) {
		return 0, nil, false
	}
	return body[0], body[1:], true
}

func FuzzC17Address(f *testing.F) {
	for _, n := range networkNames {
		p := netByName(n)
		a, _ := bech32SegwitAddr(p.Bech32, 0, make([]byte, 20))
		f.Add(a, n)
		a, _ = bech32SegwitAddr(p.Bech32, 1, make([]byte, 32))
		f.Add(a, n)
		f.Add(base58CheckEncode(p.P2PKH, make([]byte, 20)), n)
		f.Add(base58CheckEncode(p.P2SH, make([]byte, 20)), n)
	}
	f.Add("02"+"11223344556677889900112233445566778899001122334455667788990011aa", "mainnet")
	f.Fuzz(func(t *testing.T, addr string, netName string) {
		net := bitcointypes.BitcoinNetworks[netName]
		if net == nil {
			return
		}
		cfg := netByName(netName)
		got, err := bitcointypes.DecodeBtcAddress(addr, net)
		// reference decision on the standard subset
		if hrp, ver, prog, _, derr := bech32Decode(addr); derr == nil {
			standard := (ver == 0 && (len(prog) == 20 || len(prog) == 32)) || (ver == 1 && len(prog) == 32)
			if !standard {
				return // unspecified
			}
			if hrp != cfg.Bech32 {
				if err == nil {
					t.Fatalf("segwit address %q of another network accepted on %s", addr, netName)
				}
				return
			}
			if err != nil {
				t.Fatalf("standard segwit address %q rejected on %s: %v", addr, netName, err)
			}
			if !bytes.Equal(got, witnessScript(ver, prog)) {
				t.Fatalf("address %q decoded to %x, encodes %x", addr, got, witnessScript(ver, prog))
			}
			return
		}
		if ver, payload, ok := base58CheckDecode(addr); ok && len(payload) == 20 && len(addr) < 40 {
			switch {
			case ver == cfg.P2PKH:
				if err != nil || !bytes.Equal(got, world.P2PKHScript(payload)) {
					t.Fatalf("P2PKH address %q on %s: script %x err %v", addr, netName, got, err)
				}
			case ver == cfg.P2SH:
				if err != nil || !bytes.Equal(got, world.P2SHScript(payload)) {
					t.Fatalf("P2SH address %q on %s: script %x err %v", addr, netName, got, err)
				}
			default:
				if err == nil {
					t.Fatalf("base58 address %q with version %#x accepted on %s as %x", addr, ver, netName, got)
				}
			}
			return
		}
		// everything else is malformed for this network (or pay-to-pubkey hex): it must be rejected
		if err == nil {
			t.Fatalf("string %q is neither a well-formed standard address (reference codecs) yet it decoded to %x on %s", addr, got, netName)
		}
	})
}

var fuzzFixture *voteFixture

func FuzzC19TxBytes(f *testing.F) {
	fx, err := newVoteFixture(2, 1, 1, false)
	if err != nil {
		f.Fatal(err)
	}
	defer fx.close()
	rv, _ := fx.sim.Node.RelayerView()
	for k := 0; k < numVoteKinds; k++ {
		m, _ := fx.honestMsg(fx.body(k, k), rv)
		raw, _ := fx.sim.Node.Tx(fx.memberAcc(rv.Proposer), 0, world.TxOpts{}, m)
		f.Add(raw)
	}
	blk, ethTxs, err := fx.sim.Begin(world.StepOpts{DT: 5 * time.Second, Proposer: -1})
	if err != nil {
		f.Fatal(err)
	}
	f.Add(ethTxs[0])
	f.Fuzz(func(t *testing.T, raw []byte) {
		n := fx.sim.Node
		if _, err := n.CheckTx(raw, false); err != nil {
			t.Fatalf("CheckTx: %v", err)
		}
		if _, err := n.CheckTx(raw, true); err != nil {
			t.Fatalf("CheckTx(recheck): %v", err)
		}
		for _, txs := range [][][]byte{{raw}, {ethTxs[0], raw}} {
			resp, err := n.Process(blk.ProcessReq(txs))
			if err != nil {
				t.Fatalf("ProcessProposal: %v", err)
			}
			if resp.Status != abci.ResponseProcessProposal_ACCEPT && resp.Status != abci.ResponseProcessProposal_REJECT {
				t.Fatalf("ProcessProposal status %v", resp.Status)
			}
		}
	})
}

func FuzzC19Requests(f *testing.F) {
	f.Add([]byte{1, 2, 3}, []byte{4, 5, 6}, uint8(2))
	f.Add(append([]byte{2}, make([]byte, 72)...), append([]byte{3}, make([]byte, 100)...), uint8(0))
	f.Fuzz(func(t *testing.T, a, b []byte, extra uint8) {
		s, err := world.NewSim(world.DefaultSpec(2, 2))
		if err != nil {
			t.Skip()
		}
		defer s.Close()
		if _, err := s.Step(world.StepOpts{DT: 5 * time.Second, Proposer: -1}); err != nil {
			t.Fatal(err)
		}
		var reqs [][]byte
		if len(a) > 0 {
			reqs = append(reqs, a)
		}
		if len(b) > 0 {
			reqs = append(reqs, b)
		}
		for i := 0; i < int(extra%4); i++ {
			reqs = append(reqs, []byte{byte(i + 20), byte(i)})
		}
		// keep amounts below 2^128 in lock/unlock/grant records and leave the only validators' stake alone
		for _, r := range reqs {
			if len(r) > 0 && (r[0] == 3 || r[0] == 6) {
				r[0] = 4 // unlocks and weight updates of the two genesis validators could empty the validator set
			}
		}
		blk, txs, err := s.Begin(world.StepOpts{DT: 5 * time.Second, Proposer: -1, Eth: world.EthBlockOpts{Plan: world.BuildPlan{Requests: reqs}}})
		if err != nil {
			t.Fatal(err)
		}
		if _, err := s.Node.Process(blk.ProcessReq(txs)); err != nil {
			t.Fatalf("ProcessProposal: %v", err)
		}
		tw, err := s.ExecTwin(blk, nil, txs)
		if err != nil {
			t.Fatalf("block with request lists %x failed: %v", reqs, err)
		}
		if tw.With.TxResults[0].Code != 0 && tw.DumpWith.Hash() != tw.DumpWithout.Hash() {
			t.Fatalf("failed execution-block message changed state: %v", tw.DumpWith.Diff(tw.DumpWithout))
		}
		for i := 0; i < 2; i++ {
			if _, err := s.Step(world.StepOpts{DT: 30 * time.Second, Proposer: -1}); err != nil {
				t.Fatalf("follow-up block failed: %v", err)
			}
		}
	})
}
