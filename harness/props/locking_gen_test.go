package props

import (
	"fmt"
	"math/big"

	"pgregory.net/rapid"
)

// amounts are boundary-biased in [0, 2^88): dust below 1e18/weight, 1e18 +- 1, thresholds +- 1, large
func genAmount(t *rapid.T, label string, cfg LockCfg) string {
	th := "2000000000000000000"
	if len(cfg.Tokens) > 0 {
		th = cfg.Tokens[0].Threshold
	}
	thb := bigOf(th)
	choices := []string{
		"0", "1", "999", "1000000000000", "99999999999999999", "100000000000000000", "500000000000000000",
		"999999999999999999", "1000000000000000000", "1000000000000000001", "1500000000000000000", "2000000000000000000",
		"3000000000000000000", "7000000000000000000", "10000000000000000000", "123456789012345678901", "1000000000000000000000000",
		new(big.Int).Sub(thb, big.NewInt(1)).String(), thb.String(), new(big.Int).Add(thb, big.NewInt(1)).String(),
	}
	s := rapid.SampledFrom(choices).Draw(t, label)
	if bigOf(s).Sign() < 0 {
		return "0"
	}
	return s
}

func genLockCfg(t *rapid.T, focus string) LockCfg {
	c := LockCfg{
		NVal:        rapid.IntRange(1, 4).Draw(t, "nval"),
		MaxVals:     int64(rapid.IntRange(1, 5).Draw(t, "maxVals")),
		Window:      int64(rapid.IntRange(3, 8).Draw(t, "window")),
		SlashDown:   rapid.SampledFrom([]string{"0.02", "0.000000000000000001", "0.5", "0.99", "0.1"}).Draw(t, "slashDown"),
		SlashDouble: rapid.SampledFrom([]string{"0.05", "0.000000000000000001", "0.5", "0.99"}).Draw(t, "slashDouble"),
		UnlockSec:   rapid.IntRange(5, 40).Draw(t, "unlockSec"),
		JailSec:     rapid.SampledFrom([]int{60, 61, 90, 120}).Draw(t, "jailSec"),
		Halving:     int64(rapid.IntRange(1, 7).Draw(t, "halving")),
		InitReward:  rapid.SampledFrom([]int64{1, 7, 1000, 1_000_000_007, 2378234400000000000}).Draw(t, "initReward"),
		Remain:      rapid.SampledFrom([]string{"0", "5", "3000", "1000000000000", "200000000000000000000000000"}).Draw(t, "remain"),
		EvBlocks:    int64(rapid.IntRange(2, 6).Draw(t, "evBlocks")),
		EvSec:       rapid.IntRange(10, 40).Draw(t, "evSec"),
	}
	c.MaxMissed = int64(rapid.IntRange(1, int(c.Window)-1).Draw(t, "maxMissed"))
	// the difference between the two delays is biased towards 0 and towards values a later block time can hit exactly
	// (an exit at T1 and a plain unlock at T2 then mature at the same instant)
	c.ExitSec = c.UnlockSec + rapid.OneOf(rapid.SampledFrom([]int{0, 0, 1, 2, 5, 6, 10}), rapid.IntRange(0, 40)).Draw(t, "exitExtra")
	// a quarter of the chains start high: just below 64 halving intervals (the emission is 0 from there on) or far beyond
	switch rapid.IntRange(0, 7).Draw(t, "start") {
	case 0:
		c.Start = 64*c.Halving - int64(rapid.IntRange(1, 6).Draw(t, "startBelow"))
	case 1:
		c.Start = rapid.SampledFrom([]int64{1000, 1 << 33}).Draw(t, "startFar")
	}
	nt := rapid.IntRange(1, 3).Draw(t, "ntokens")
	for i := 0; i < nt; i++ {
		tc := TokCfg{Weight: rapid.SampledFrom([]uint64{1, 1, 2, 10, 100, 1000, 0}).Draw(t, "weight"),
			Threshold: rapid.SampledFrom([]string{"0", "1000000000000000000", "2000000000000000000", "1"}).Draw(t, "threshold")}
		if i == 0 && tc.Weight == 0 {
			tc.Weight = 1 // the anchor's token always carries weight
		}
		c.Tokens = append(c.Tokens, tc)
	}
	for v := 0; v < c.NVal; v++ {
		var st []string
		for i := 0; i < nt; i++ {
			a := rapid.SampledFrom([]string{"2000000000000000000", "3000000000000000000", "2000000000000000000", "5000000000000000000", "10000000000000000000"}).Draw(t, "stake")
			if i > 0 && rapid.Bool().Draw(t, "noStake") {
				a = "0"
			}
			if v == 0 && i == 0 {
				a = "1000000000000000000000" // anchor: 1000 units of token 0, never unlocked or punished
			}
			st = append(st, a)
		}
		c.Stakes = append(c.Stakes, st)
	}
	_ = focus
	return c
}

type lockGenState struct {
	nextID  uint64
	created map[int]bool
}

func genLockBlock(t *rapid.T, cfg LockCfg, gs *lockGenState, focus string) LockBlock {
	b := LockBlock{
		DT:       rapid.SampledFrom([]int{1, 1, 2, 5, 5, 10, 30, 61, 125}).Draw(t, "dt"),
		Proposer: rapid.IntRange(-1, 4).Draw(t, "proposer"),
		Gas:      rapid.SampledFrom([]string{"0", "0", "1", "7", "1000000007", "1000000000000000000", "1000000000000000000000000000"}).Draw(t, "gas"),
	}
	anyVal := func(label string) int {
		// existing validators mostly; sometimes one that was never created
		return rapid.IntRange(1, lockUniverse-1).Draw(t, label)
	}
	tok := func(label string) int { return rapid.IntRange(0, len(cfg.Tokens)-1).Draw(t, label) }
	w := func(label string, hi int) int { return rapid.IntRange(0, hi).Draw(t, label) }
	nAbs, nEv, nCreate, nLock, nUnlock, nClaim, nGrant, nWeight, nTh := 1, 8, 3, 2, 2, 3, 4, 6, 6
	switch focus {
	case "C14":
		nAbs, nEv = 0, 3
	case "C15":
		nUnlock, nLock = 0, 1
	case "C12":
		nClaim, nGrant = 1, 1
	case "C13":
		nCreate, nLock, nUnlock, nWeight, nTh = 1, 0, 1, 2, 3
	}
	if w("absentRoll", nAbs+1) <= 1 {
		k := rapid.IntRange(1, 3).Draw(t, "nabsent")
		for i := 0; i < k; i++ {
			b.Absent = append(b.Absent, anyVal("absent"))
		}
	}
	if w("evRoll", nEv) == 0 {
		// one to three pieces of evidence in the block (expired and fresh ones mixed, the same validator more than once)
		for i, k := 0, rapid.SampledFrom([]int{1, 1, 2, 3}).Draw(t, "nev"); i < k; i++ {
			b.Evidence = append(b.Evidence, EvSpec{V: anyVal("evV"), LC: rapid.Bool().Draw(t, "lc"),
				AgeBlocks: int64(rapid.SampledFrom([]int{0, 1, int(cfg.EvBlocks) - 1, int(cfg.EvBlocks), int(cfg.EvBlocks) + 1, int(cfg.EvBlocks) + 5}).Draw(t, "ageB")),
				AgeSec:    rapid.SampledFrom([]int{0, 1, cfg.EvSec - 1, cfg.EvSec, cfg.EvSec + 1, cfg.EvSec + 100}).Draw(t, "ageS")})
		}
	}
	if w("createRoll", nCreate) == 0 {
		k := rapid.IntRange(1, 3).Draw(t, "ncreate")
		for i := 0; i < k; i++ {
			v := anyVal("createV")
			b.Creates = append(b.Creates, v)
			gs.created[v] = true
		}
	}
	if w("lockRoll", nLock) == 0 {
		k := rapid.IntRange(1, 5).Draw(t, "nlock")
		for i := 0; i < k; i++ {
			b.Locks = append(b.Locks, LockReq{V: anyVal("lockV"), Tok: tok("lockTok"), Amt: genAmount(t, "lockAmt", cfg)})
		}
	}
	if w("unlockRoll", nUnlock) == 0 {
		k := rapid.IntRange(1, 4).Draw(t, "nunlock")
		if focus == "C15" && rapid.IntRange(0, 5).Draw(t, "burst") == 0 {
			k = rapid.IntRange(17, 24).Draw(t, "burstN")
		}
		for i := 0; i < k; i++ {
			gs.nextID++
			amt := genAmount(t, "unlockAmt", cfg)
			if k > 8 {
				amt = "1000"
			}
			b.Unlocks = append(b.Unlocks, UnlockReq{ID: gs.nextID, V: anyVal("unlockV"), Tok: tok("unlockTok"), Amt: amt})
		}
	}
	if w("claimRoll", nClaim) == 0 {
		k := rapid.IntRange(1, 3).Draw(t, "nclaim")
		for i := 0; i < k; i++ {
			gs.nextID++
			b.Claims = append(b.Claims, ClaimReq{ID: gs.nextID, V: rapid.IntRange(0, lockUniverse-1).Draw(t, "claimV")})
		}
	}
	if w("grantRoll", nGrant) == 0 {
		b.Grants = append(b.Grants, rapid.SampledFrom([]string{"0", "1", "3", "1000", "999999999999", "5000000000000000000"}).Draw(t, "grant"))
	}
	if w("weightRoll", nWeight) == 0 {
		tk := tok("weightTok")
		wt := rapid.SampledFrom([]uint64{0, 1, 2, 5, 10, 100, 1000, 1 << 20}).Draw(t, "newWeight")
		if tk == 0 && wt == 0 {
			wt = 1
		}
		b.Weights = append(b.Weights, WeightReq{Tok: tk, W: wt})
	}
	if w("thRoll", nTh) == 0 {
		b.Thresholds = append(b.Thresholds, ThresholdReq{Tok: tok("thTok"), Th: rapid.SampledFrom([]string{"0", "1", "1000000000000000000", "2000000000000000000", "2000000000000000001", "50000000000000000000"}).Draw(t, "newTh")})
	}
	if w("badRoll", 40) == 0 {
		b.Bad = rapid.IntRange(1, 4).Draw(t, "bad")
	}
	return b
}

func genLockCase(focus string, maxBlocks int) func(t *rapid.T) LockCase {
	return func(t *rapid.T) LockCase {
		c := LockCase{Cfg: genLockCfg(t, focus)}
		gs := &lockGenState{created: map[int]bool{}}
		// most histories start by creating and funding a few more validators
		if rapid.IntRange(0, 3).Draw(t, "bootstrap") > 0 {
			b := LockBlock{DT: 5, Proposer: -1, Gas: "0"}
			k := rapid.IntRange(1, 4).Draw(t, "bootN")
			for i := 0; i < k; i++ {
				v := rapid.IntRange(1, lockUniverse-1).Draw(t, "bootV")
				b.Creates = append(b.Creates, v)
			}
			c.Blocks = append(c.Blocks, b)
			b2 := LockBlock{DT: 5, Proposer: -1, Gas: "0"}
			for _, v := range b.Creates {
				for ti := range c.Cfg.Tokens {
					b2.Locks = append(b2.Locks, LockReq{V: v, Tok: ti, Amt: genAmount(t, "bootAmt", c.Cfg)})
				}
			}
			c.Blocks = append(c.Blocks, b2)
		}
		n := rapid.IntRange(4, maxBlocks).Draw(t, "nblocks")
		for i := 0; i < n; i++ {
			c.Blocks = append(c.Blocks, genLockBlock(t, c.Cfg, gs, focus))
		}
		if focus == "C14" || rapid.IntRange(0, 3).Draw(t, "streaks") == 0 {
			// absence streaks around the window parameters: max-1, max, max+1 misses, straddling windows
			ns := rapid.IntRange(1, 3).Draw(t, "nstreaks")
			for k := 0; k < ns; k++ {
				v := rapid.IntRange(1, lockUniverse-1).Draw(t, "streakV")
				start := rapid.IntRange(0, len(c.Blocks)-1).Draw(t, "streakStart")
				ln := int(c.Cfg.MaxMissed) + rapid.IntRange(-1, 2).Draw(t, "streakLen")
				gap := rapid.IntRange(0, 2).Draw(t, "streakGap")
				for i, left := start, ln; i < len(c.Blocks) && left > 0; i++ {
					if gap > 0 && (i-start)%3 == 2 {
						continue // a signed block inside the streak
					}
					c.Blocks[i].Absent = append(c.Blocks[i].Absent, v)
					left--
				}
			}
		}
		// about a third of the histories are restarted from an exported state once or twice
		if len(c.Blocks) > 3 && rapid.IntRange(0, 2).Draw(t, "reimport") == 0 {
			for k, n := 0, rapid.IntRange(1, 2).Draw(t, "nreimport"); k < n; k++ {
				c.Blocks[rapid.IntRange(2, len(c.Blocks)-1).Draw(t, "reimportAt")].Reimport = true
			}
		}
		return c
	}
}

func lockCfgClass(c LockCfg) string {
	return fmt.Sprintf("vals=%d/K=%d/tokens=%d", c.NVal, c.MaxVals, len(c.Tokens))
}
