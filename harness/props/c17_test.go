package props

// C17 — deposit addresses handed out are exactly what deposit checking accepts;
// withdrawal addresses decode to exactly the script they encode.

import (
	"bytes"
	"encoding/hex"
	"fmt"
	"github.com/ethereum/go-ethereum/core/types/goattypes"
	"strings"
	"testing"
	"time"

	"github.com/btcsuite/btcd/wire"

	bitcointypes "github.com/goatnetwork/goat/x/bitcoin/types"
	"pgregory.net/rapid"
	"verif/harness/world"
)

var networkNames = []string{"mainnet", "testnet3", "signet", "regtest"}

// DepositAddrCase: one (key, evm address, network, version) and one alternative of each.
type DepositAddrCase struct {
	KeyIdx   int    `json:"key"`
	Schnorr  bool   `json:"schnorr"`
	Version  int    `json:"version"`
	Net      string `json:"net"`
	Evm      []byte `json:"evm"`
	Magic    []byte `json:"magic"`
	OtherKey int    `json:"other_key"`
	OtherEvm []byte `json:"other_evm"`
	OtherMag []byte `json:"other_magic"`
}

func genDepositAddr(t *rapid.T) DepositAddrCase {
	c := DepositAddrCase{
		KeyIdx:   rapid.IntRange(0, 5000).Draw(t, "key"),
		Schnorr:  rapid.Bool().Draw(t, "schnorr"),
		Version:  rapid.IntRange(0, 1).Draw(t, "version"),
		Net:      rapid.SampledFrom(networkNames).Draw(t, "net"),
		Evm:      rapid.SliceOfN(rapid.Byte(), 20, 20).Draw(t, "evm"),
		Magic:    rapid.SliceOfN(rapid.Byte(), 4, 4).Draw(t, "magic"),
		OtherKey: rapid.IntRange(5001, 9000).Draw(t, "otherKey"),
	}
	// the alternative EVM address / magic differ in one bit or completely
	c.OtherEvm = append([]byte{}, c.Evm...)
	if rapid.Bool().Draw(t, "evmOneBit") {
		bit := rapid.IntRange(0, 159).Draw(t, "bit")
		c.OtherEvm[bit/8] ^= 1 << uint(bit%8)
	} else {
		c.OtherEvm = rapid.SliceOfN(rapid.Byte(), 20, 20).Draw(t, "evm2")
		if bytes.Equal(c.OtherEvm, c.Evm) {
			c.OtherEvm[0] ^= 1
		}
	}
	c.OtherMag = append([]byte{}, c.Magic...)
	c.OtherMag[rapid.IntRange(0, 3).Draw(t, "magByte")] ^= byte(rapid.IntRange(1, 255).Draw(t, "magXor"))
	return c
}

// scriptOfAddress decodes a segwit address string with the independent decoder.
func scriptOfAddress(addr, wantHrp string) ([]byte, error) {
	hrp, ver, prog, _, err := bech32Decode(addr)
	if err != nil {
		return nil, err
	}
	if hrp != wantHrp {
		return nil, fmt.Errorf("hrp %q, want %q", hrp, wantHrp)
	}
	return witnessScript(ver, prog), nil
}

func runDepositAddr(c DepositAddrCase) Outcome {
	key := world.NewBtcKey(c.KeyIdx, c.Schnorr)
	other := world.NewBtcKey(c.OtherKey, c.Schnorr)
	otherType := world.NewBtcKey(c.KeyIdx, !c.Schnorr)
	net := bitcointypes.BitcoinNetworks[c.Net]
	hrp := netByName(c.Net).Bech32
	o := Outcome{NonTrivial: true, Classes: []string{fmt.Sprintf("v%d/schnorr=%v/%s", c.Version, c.Schnorr, c.Net)}}
	fail := func(inv, sig, f string, a ...any) Outcome {
		o.Fail = failf(inv, sig, f, a...)
		return o
	}
	if c.Version == 0 {
		addr, err := bitcointypes.DepositAddressV0(key.Public(), c.Evm, net)
		if err != nil {
			return fail("handout", "v0-address-not-built", "DepositAddressV0: %v", err)
		}
		script, err := scriptOfAddress(addr.EncodeAddress(), hrp)
		if err != nil {
			return fail("handout", "v0-address-undecodable", "address %q: %v", addr.EncodeAddress(), err)
		}
		if want := world.DepositScriptV0(key, c.Evm); !bytes.Equal(script, want) {
			return fail("handout", "v0-script-differs-from-spec", "address encodes %x, specification gives %x", script, want)
		}
		if err := bitcointypes.VerifyDespositScriptV0(key.Public(), c.Evm, script); err != nil {
			return fail("roundtrip", "v0-own-address-rejected", "verification rejects the node's own address: %v", err)
		}
		o.Evals = 1
		for name, try := range map[string]error{
			"other-key":      bitcointypes.VerifyDespositScriptV0(other.Public(), c.Evm, script),
			"other-evm":      bitcointypes.VerifyDespositScriptV0(key.Public(), c.OtherEvm, script),
			"other-key-type": bitcointypes.VerifyDespositScriptV0(otherType.Public(), c.Evm, script),
		} {
			o.Evals++
			if try == nil {
				return fail("exclusive", "v0-accepted-for-"+name, "script for (key %d, evm %x) also verifies for %s", c.KeyIdx, c.Evm, name)
			}
		}
		// the version-1 verifier must not take a version-0 script
		if !c.Schnorr {
			_, data := world.DepositScriptsV1(key, c.Magic, c.Evm)
			if bitcointypes.VerifyDespositScriptV1(key.Public(), c.Magic, c.Evm, script, data) == nil {
				return fail("exclusive", "v0-script-accepted-as-v1", "a version-0 script passes version-1 verification")
			}
		}
		return o
	}
	// version 1
	addr, data, err := bitcointypes.DepositAddressV1(key.Public(), c.Magic, c.Evm, net)
	if c.Schnorr {
		o.Classes = append(o.Classes, "v1-schnorr-unsupported")
		if err == nil {
			return fail("handout", "v1-schnorr-address-built", "version 1 address handed out for a Schnorr key")
		}
		// whatever a depositor might pay to for a Schnorr key: the key-hash form of the same scalar, the
		// key-path taproot output of the key (its change address), or the version-0 deposit script
		out0, out1 := world.DepositScriptsV1(world.NewBtcKey(c.KeyIdx, false), c.Magic, c.Evm)
		for name, first := range map[string][]byte{"key-hash-of-same-scalar": out0, "taproot-key-path-output": world.SystemScript(key), "version-0-script": world.DepositScriptV0(key, c.Evm)} {
			o.Evals++
			if bitcointypes.VerifyDespositScriptV1(key.Public(), c.Magic, c.Evm, first, out1) == nil {
				return fail("exclusive", "v1-schnorr-verified", "version 1 verification accepts a Schnorr key (first output: %s)", name)
			}
		}
		return o
	}
	if err != nil {
		return fail("handout", "v1-address-not-built", "DepositAddressV1: %v", err)
	}
	script, err := scriptOfAddress(addr.EncodeAddress(), hrp)
	if err != nil {
		return fail("handout", "v1-address-undecodable", "address %q: %v", addr.EncodeAddress(), err)
	}
	want0, want1 := world.DepositScriptsV1(key, c.Magic, c.Evm)
	if !bytes.Equal(script, want0) || !bytes.Equal(data, want1) {
		return fail("handout", "v1-script-differs-from-spec", "handed out %x / %x, specification gives %x / %x", script, data, want0, want1)
	}
	if err := bitcointypes.VerifyDespositScriptV1(key.Public(), c.Magic, c.Evm, script, data); err != nil {
		return fail("roundtrip", "v1-own-address-rejected", "verification rejects the node's own address: %v", err)
	}
	o.Evals = 1
	_, otherData := world.DepositScriptsV1(key, c.Magic, c.OtherEvm)
	for name, try := range map[string]error{
		"other-key":         bitcointypes.VerifyDespositScriptV1(other.Public(), c.Magic, c.Evm, script, data),
		"other-evm":         bitcointypes.VerifyDespositScriptV1(key.Public(), c.Magic, c.OtherEvm, script, data),
		"other-magic":       bitcointypes.VerifyDespositScriptV1(key.Public(), c.OtherMag, c.Evm, script, data),
		"other-data-script": bitcointypes.VerifyDespositScriptV1(key.Public(), c.Magic, c.Evm, script, otherData),
		"other-key-type":    bitcointypes.VerifyDespositScriptV1(otherType.Public(), c.Magic, c.Evm, script, data),
		"truncated-data":    bitcointypes.VerifyDespositScriptV1(key.Public(), c.Magic, c.Evm, script, data[:len(data)-1]),
	} {
		o.Evals++
		if try == nil {
			return fail("exclusive", "v1-accepted-for-"+name, "scripts for (key %d, evm %x) also verify for %s", c.KeyIdx, c.Evm, name)
		}
	}
	if bitcointypes.VerifyDespositScriptV0(key.Public(), c.Evm, script) == nil {
		return fail("exclusive", "v1-script-accepted-as-v0", "a version-1 script passes version-0 verification")
	}
	return o
}

func TestC17_Deposit(t *testing.T) {
	RunProp(t, Prop[DepositAddrCase]{
		ID: "C17", Name: "deposit", Quick: 40_000, Thor: 1_500_000,
		Gen: genDepositAddr, Run: runDepositAddr,
		Rule: "key type x deposit version x network x random key x random EVM address x magic prefix: address string handed out -> independent Bech32(m) decoder -> script == script derived from the specification, accepted by the verifier for exactly that (key, EVM address[, magic]) and rejected for another key, a one-bit/other EVM address, another magic, the other key type and the other version; version 1 with a Schnorr key fails on both sides; every case is non-trivial; distinct by case",
	})
}

// WithdrawAddrCase: an address string built by the independent encoders.
type WithdrawAddrCase struct {
	Net      string `json:"net"`      // configured network
	AddrNet  string `json:"addr_net"` // network the address is encoded for
	Type     string `json:"type"`     // p2pkh p2sh p2wpkh p2wsh p2tr p2pk33 p2pk65 hybrid witness-other
	Payload  []byte `json:"payload"`
	Mutation string `json:"mutation"` // none upper checksum mixedcase wrongconst badlen char
	MutArg   int    `json:"mut_arg"`
	WitVer   int    `json:"wit_ver"`
}

func genWithdrawAddr(t *rapid.T) WithdrawAddrCase {
	c := WithdrawAddrCase{
		Net:      rapid.SampledFrom(networkNames).Draw(t, "net"),
		Type:     rapid.SampledFrom([]string{"p2pkh", "p2sh", "p2wpkh", "p2wsh", "p2tr", "p2pkh", "p2sh", "p2wpkh", "p2wsh", "p2tr", "p2pk33", "p2pk65", "hybrid", "witness-other"}).Draw(t, "type"),
		Mutation: rapid.SampledFrom([]string{"none", "none", "none", "none", "upper", "checksum", "mixedcase", "wrongconst", "badlen", "char"}).Draw(t, "mutation"),
		MutArg:   rapid.IntRange(0, 1000).Draw(t, "mutArg"),
		WitVer:   rapid.IntRange(1, 16).Draw(t, "witVer"),
	}
	c.AddrNet = c.Net
	if rapid.IntRange(0, 3).Draw(t, "foreign") == 0 {
		c.AddrNet = rapid.SampledFrom(networkNames).Draw(t, "addrNet")
	}
	n := map[string]int{"p2pkh": 20, "p2sh": 20, "p2wpkh": 20, "p2wsh": 32, "p2tr": 32, "p2pk33": 0, "p2pk65": 0, "hybrid": 0}[c.Type]
	if c.Type == "witness-other" {
		n = rapid.IntRange(2, 40).Draw(t, "progLen")
	}
	c.Payload = rapid.SliceOfN(rapid.Byte(), n, n).Draw(t, "payload")
	if n == 0 {
		c.Payload = []byte{byte(rapid.IntRange(0, 200).Draw(t, "pkIdx"))}
	}
	return c
}

func flipChar(s string, i int, alphabet string) string {
	b := []byte(s)
	i %= len(b)
	for k := 0; k < len(alphabet); k++ {
		if alphabet[k] != b[i] && strings.IndexByte(alphabet, b[i]) >= 0 {
			b[i] = alphabet[k]
			break
		}
	}
	return string(b)
}

func runWithdrawAddr(c WithdrawAddrCase) Outcome {
	cfg, enc := netByName(c.Net), netByName(c.AddrNet)
	net := bitcointypes.BitcoinNetworks[c.Net]
	var addr string
	var script []byte
	segwit := false
	standard := true
	switch c.Type {
	case "p2pkh":
		addr, script = base58CheckEncode(enc.P2PKH, c.Payload), world.P2PKHScript(c.Payload)
	case "p2sh":
		addr, script = base58CheckEncode(enc.P2SH, c.Payload), world.P2SHScript(c.Payload)
	case "p2wpkh", "p2wsh":
		addr, _ = bech32SegwitAddr(enc.Bech32, 0, c.Payload)
		script, segwit = witnessScript(0, c.Payload), true
	case "p2tr":
		addr, _ = bech32SegwitAddr(enc.Bech32, 1, c.Payload)
		script, segwit = witnessScript(1, c.Payload), true
	case "witness-other":
		ver := byte(c.WitVer)
		addr, _ = bech32SegwitAddr(enc.Bech32, ver, c.Payload)
		script, segwit = witnessScript(ver, c.Payload), true
		standard = ver == 1 && len(c.Payload) == 32
	case "p2pk33", "p2pk65", "hybrid":
		k := world.NewBtcKey(int(c.Payload[0]), false).Priv.PubKey()
		switch c.Type {
		case "p2pk33":
			addr = hex.EncodeToString(k.SerializeCompressed())
		case "p2pk65":
			addr = hex.EncodeToString(k.SerializeUncompressed())
		default:
			u := k.SerializeUncompressed()
			u[0] = 0x06 | (u[64] & 1)
			addr = hex.EncodeToString(u)
		}
	}
	wellFormed := true
	switch c.Mutation {
	case "upper":
		if segwit {
			addr = strings.ToUpper(addr) // still a valid encoding (BIP-173)
		}
	case "checksum":
		if c.Type == "p2pk33" || c.Type == "p2pk65" || c.Type == "hybrid" {
			break
		}
		alphabet := b58Alphabet
		if segwit {
			alphabet = bech32Charset
		}
		// change one character of the data part
		start := 1
		if segwit {
			start = len(enc.Bech32) + 1
		}
		addr = addr[:start] + flipChar(addr[start:], c.MutArg, alphabet)
		wellFormed = false
	case "mixedcase":
		if segwit {
			i := len(enc.Bech32) + 1 + c.MutArg%(len(addr)-len(enc.Bech32)-1)
			up := strings.ToUpper(addr[i : i+1])
			if up != addr[i:i+1] {
				addr = addr[:i] + up + addr[i+1:]
				wellFormed = false
			}
		}
	case "wrongconst":
		if segwit {
			ver := byte(0)
			if c.Type == "p2tr" {
				ver = 1
			} else if c.Type == "witness-other" {
				ver = byte(c.WitVer)
			}
			k := uint32(bech32mConst)
			if ver != 0 {
				k = bech32Const
			}
			addr = segwitAddrWithConst(enc.Bech32, ver, c.Payload, k)
			wellFormed = false
		}
	case "badlen":
		if c.Type == "p2wpkh" || c.Type == "p2wsh" {
			bad := append(append([]byte{}, c.Payload...), byte(c.MutArg))
			addr = segwitAddrWithConst(enc.Bech32, 0, bad, bech32Const)
			wellFormed = false
		} else if c.Type == "p2pkh" || c.Type == "p2sh" {
			addr = base58CheckEncode(enc.P2PKH, append(append([]byte{}, c.Payload...), byte(c.MutArg)))
			wellFormed = false
		}
	case "char":
		if segwit {
			i := len(enc.Bech32) + 1 + c.MutArg%(len(addr)-len(enc.Bech32)-1)
			addr = addr[:i] + "b" + addr[i+1:] // 'b' is not in the bech32 alphabet
			wellFormed = false
		} else if c.Type == "p2pkh" || c.Type == "p2sh" {
			i := 1 + c.MutArg%(len(addr)-1)
			addr = addr[:i] + "0" + addr[i+1:] // '0' is not in the base58 alphabet
			wellFormed = false
		}
	}

	got, err := bitcointypes.DecodeBtcAddress(addr, net)
	o := Outcome{NonTrivial: true, Classes: []string{fmt.Sprintf("%s/%s/foreign=%v", c.Type, c.Mutation, c.Net != c.AddrNet)}}
	isP2PK := c.Type == "p2pk33" || c.Type == "p2pk65" || c.Type == "hybrid"
	// "foreign" = the address's prefixes differ from the configured network's
	foreign := false
	switch {
	case segwit:
		foreign = enc.Bech32 != cfg.Bech32
	case c.Type == "p2pkh":
		foreign = enc.P2PKH != cfg.P2PKH
	case c.Type == "p2sh":
		foreign = enc.P2SH != cfg.P2SH
	}
	switch {
	case isP2PK:
		if err == nil {
			o.Fail = failf("p2pk-rejected", "p2pk-accepted", "legacy pay-to-pubkey string %q decoded to %x", addr, got)
		}
	case !wellFormed:
		if err == nil {
			o.Fail = failf("malformed-rejected", "malformed-address-accepted", "mutated (%s) address %q decoded to %x", c.Mutation, addr, got)
		}
	case foreign:
		if err == nil {
			o.Fail = failf("foreign-rejected", "foreign-network-address-accepted", "address %q of %s accepted on %s as %x", addr, c.AddrNet, c.Net, got)
		}
	case !standard:
		// the statement speaks about standard address types only (a v1 program of 20
		// bytes, for instance, is decoded by the library as a v0 key-hash script)
		o.Classes = append(o.Classes, "unspecified")
		o.NonTrivial = false
	default:
		if err != nil {
			o.Fail = failf("standard-accepted", "standard-address-rejected", "standard %s address %q of the configured network %s rejected: %v", c.Type, addr, c.Net, err)
		} else if !bytes.Equal(got, script) {
			o.Fail = failf("exact-script", "wrong-script", "address %q decoded to %x, encodes %x", addr, got, script)
		}
	}
	return o
}

func TestC17_Withdraw(t *testing.T) {
	RunProp(t, Prop[WithdrawAddrCase]{
		ID: "C17", Name: "withdraw", Quick: 60_000, Thor: 2_000_000,
		Gen: genWithdrawAddr, Run: runWithdrawAddr,
		Rule: "address strings built by independent Base58Check/Bech32/Bech32m encoders for every standard type (P2PKH, P2SH, P2WPKH, P2WSH, P2TR) x configured network x encoding network, plus pay-to-pubkey hex (compressed, uncompressed, hybrid), non-standard witness programs (unspecified) and mutations (upper case, checksum, mixed case, wrong checksum constant, bad length, foreign character); oracle: standard same-prefix address -> exactly the template script, P2PK / other-prefix / mutated -> rejected; every case non-trivial; distinct by case",
	})
}

// ---- app slice: the address the node hands out is accepted as a deposit for exactly that pair ----

type AddrAppCase struct {
	Schnorr bool   `json:"schnorr"`
	Version int    `json:"version"`
	EvmSeed int    `json:"evm_seed"`
	Value   uint64 `json:"value"`
	Pos     int    `json:"pos"`
	// ParamUpdate: 0 none; 1 tax, 2 confirmations, 3 minimum deposit requested by the execution layer; +4 = the request is
	// processed after the address was handed out (otherwise before). Addresses must not depend on it.
	ParamUpdate int `json:"param_update,omitempty"`
}

func runAddrApp(c AddrAppCase) Outcome {
	o := Outcome{NonTrivial: true, Classes: []string{fmt.Sprintf("v%d/schnorr=%v", c.Version%2, c.Schnorr)}}
	f, err := newVoteFixture(2, 0, 0, c.Schnorr)
	if err != nil {
		o.Fail = failf("fixture", "fixture-failed", "%v", err)
		return o
	}
	defer f.close()
	sim := f.sim
	evm := evmOf(c.EvmSeed)
	paramUpdate := func() *Failure {
		br := goattypes.BridgeRequests{}
		switch c.ParamUpdate % 4 {
		case 1:
			br.DepositTax = []*goattypes.DepositTaxRequest{{Rate: 30, Max: 0}}
		case 2:
			br.Confirmation = []*goattypes.ConfirmationNumberRequest{{Number: 1}}
		case 3:
			br.MinDeposit = []*goattypes.MinDepositRequest{{Satoshi: 20_000}}
		}
		r, err := sim.Step(world.StepOpts{DT: 5 * time.Second, Proposer: -1, Eth: world.EthBlockOpts{Plan: world.BuildPlan{Requests: br.Encode()}}})
		if err != nil {
			return failf("block-processing", "block-failed", "%v", err)
		}
		if r.Resp.TxResults[0].Code != 0 {
			return failf("block-processing", "eth-block-message-failed", "%s", r.Resp.TxResults[0].Log)
		}
		return nil
	}
	if c.ParamUpdate%4 != 0 {
		o.Classes = append(o.Classes, fmt.Sprintf("param-update-%d/after-handout=%v", c.ParamUpdate%4, c.ParamUpdate >= 4))
	}
	if c.ParamUpdate%4 != 0 && c.ParamUpdate < 4 {
		if fl := paramUpdate(); fl != nil {
			o.Fail = fl
			return o
		}
	}
	var resp bitcointypes.QueryDepositAddressResponse
	qerr := sim.Node.Query("/goat.bitcoin.v1.Query/DepositAddress", &bitcointypes.QueryDepositAddress{Version: uint32(c.Version % 2), EvmAddress: fmt.Sprintf("0x%x", evm)}, &resp)
	if c.Version%2 == 1 && c.Schnorr {
		if qerr == nil {
			o.Fail = failf("handout", "v1-schnorr-address-built", "the node handed out a version-1 address for a Schnorr key")
		}
		return o
	}
	if qerr != nil {
		o.Fail = failf("handout", "address-query-failed", "%v", qerr)
		return o
	}
	script, err := scriptOfAddress(resp.Address, "bcrt")
	if err != nil {
		o.Fail = failf("handout", "address-undecodable", "%q: %v", resp.Address, err)
		return o
	}
	if c.ParamUpdate%4 != 0 && c.ParamUpdate >= 4 {
		if fl := paramUpdate(); fl != nil {
			o.Fail = fl
			return o
		}
		var again bitcointypes.QueryDepositAddressResponse
		if err := sim.Node.Query("/goat.bitcoin.v1.Query/DepositAddress", &bitcointypes.QueryDepositAddress{Version: uint32(c.Version % 2), EvmAddress: fmt.Sprintf("0x%x", evm)}, &again); err != nil || again.Address != resp.Address {
			o.Fail = failf("handout", "address-changed-by-parameter-update", "after a bridge parameter request the address for the same key and EVM address is %q (%v), before it was %q", again.Address, err, resp.Address)
			return o
		}
	}
	outs := []*wire.TxOut{wire.NewTxOut(int64(50_000+c.Value%1_000_000), script)}
	if c.Version%2 == 1 {
		outs = append(outs, wire.NewTxOut(0, resp.OpReturnScript))
	}
	tx := world.SpendTx(uint64(c.EvmSeed), outs...)
	height := uint64(101)
	txs := []*wire.MsgTx{world.CoinbaseTx(height), world.FillerTx(height, 1), world.FillerTx(height, 2), world.FillerTx(height, 3)}
	pos := 1 + abs(c.Pos)%3
	txs[pos] = tx
	blk := world.NewBtcBlock(height, world.DSha([]byte("prev")), txs)
	rv, _ := sim.Node.RelayerView()
	hm, err := f.honestMsg(voteBody{kind: kindHashes, start: height, hashes: [][]byte{blk.Hash}}, rv)
	if err != nil {
		o.Fail = failf("fixture", "vote-build-failed", "%v", err)
		return o
	}
	prop := f.memberAcc(rv.Proposer)
	dep := func(evmAddr []byte) *bitcointypes.MsgNewDeposits {
		return &bitcointypes.MsgNewDeposits{Proposer: rv.Proposer, BlockHeaders: []*bitcointypes.BlockHeader{{Height: height, Raw: blk.Header}},
			Deposits: []*bitcointypes.Deposit{{Version: uint32(c.Version % 2), BlockNumber: height, TxIndex: uint32(pos), NoWitnessTx: blk.Raw[pos], OutputIndex: 0,
				IntermediateProof: blk.Tree.Path(pos), EvmAddress: evmAddr, RelayerPubkey: f.btcKey.Public()}}}
	}
	other := append([]byte{}, evm...)
	other[7] ^= 0x20
	t1, _ := sim.Node.Tx(prop, 0, world.TxOpts{}, hm)
	t2, _ := sim.Node.Tx(prop, 1, world.TxOpts{}, dep(other)) // another EVM address: must fail
	r, err := sim.Step(world.StepOpts{DT: 5 * time.Second, Proposer: -1, Txs: [][]byte{t1, t2}})
	if err != nil {
		o.Fail = failf("block-processing", "block-failed", "%v", err)
		return o
	}
	if r.Resp.TxResults[1].Code != 0 {
		o.Fail = failf("fixture", "hash-vote-failed", "%s", r.Resp.TxResults[1].Log)
		return o
	}
	if r.Resp.TxResults[2].Code == 0 {
		o.Fail = failf("exclusive", "deposit-accepted-for-another-evm-address", "a deposit to the address handed out for %x was credited to %x", evm, other)
		return o
	}
	t3, _ := sim.Node.Tx(prop, 0, world.TxOpts{}, dep(evm))
	r, err = sim.Step(world.StepOpts{DT: 5 * time.Second, Proposer: -1, Txs: [][]byte{t3}})
	if err != nil {
		o.Fail = failf("block-processing", "block-failed", "%v", err)
		return o
	}
	if r.Resp.TxResults[1].Code != 0 {
		o.Fail = failf("roundtrip", "deposit-to-handed-out-address-rejected", "a deposit paying the address the node handed out (%s) was rejected: %s", resp.Address, r.Resp.TxResults[1].Log)
	}
	return o
}

func TestC17_App(t *testing.T) {
	RunProp(t, Prop[AddrAppCase]{
		ID: "C17", Name: "app", Quick: 96, Thor: 3000,
		Gen: func(t *rapid.T) AddrAppCase {
			return AddrAppCase{ParamUpdate: rapid.SampledFrom([]int{0, 0, 1, 2, 3, 5, 6, 7}).Draw(t, "paramUpdate"), Schnorr: rapid.Bool().Draw(t, "schnorr"), Version: rapid.IntRange(0, 1).Draw(t, "version"), EvmSeed: rapid.IntRange(0, 1<<20).Draw(t, "evm"),
				Value: rapid.Uint64Range(0, 1<<30).Draw(t, "value"), Pos: rapid.IntRange(0, 2).Draw(t, "pos")}
		},
		Run:  runAddrApp,
		Rule: "app slice: Query/DepositAddress on a live chain (ECDSA or Schnorr bridge key, version 0/1, random EVM address) -> independent decoder -> a model Bitcoin transaction paying that script in a block whose hash is voted at run time -> MsgNewDeposits must be credited for exactly that EVM address and rejected for a one-bit-different one; version 1 with a Schnorr key must not be handed out; in 3/4 of the cases an execution-layer bridge parameter request (tax, confirmations or minimum deposit) is processed before or after the hand-out, which must change neither the address nor its acceptance",
	})
}
