package props

// C10 — only relayer-proposer bridge/relayer messages and the block message can run.

import (
	"fmt"
	"reflect"
	"sort"
	"strings"
	"testing"
	"time"

	msgv1 "cosmossdk.io/api/cosmos/msg/v1"
	abci "github.com/cometbft/cometbft/abci/types"
	sdk "github.com/cosmos/cosmos-sdk/types"
	"github.com/cosmos/gogoproto/proto"
	protov2 "google.golang.org/protobuf/proto"
	"google.golang.org/protobuf/reflect/protoreflect"
	"pgregory.net/rapid"
	"verif/harness/world"
)

const (
	modeCheck = iota
	modeRecheck
	modeProcess
	modeFinalize
	modePrepare
	numModes
)

var modeNames = []string{"check", "recheck", "process", "finalize", "prepare"}

const (
	sgProposer = iota
	sgVoter
	sgValidator // a validator that is not this block's proposer
	sgStranger  // has an account, no role
	sgUnknown   // no account at all
	sgBlockProposer
	numSigners
)

var signerNames = []string{"relayer-proposer", "voter", "validator", "stranger", "unknown-account", "block-proposer"}

// AnteCell is one crafted transaction in one execution mode.
type AnteCell struct {
	Type        int   `json:"type"` // index into the sorted list of registered message types
	Mode        int   `json:"mode"`
	Signer      int   `json:"signer"`
	Memo        int   `json:"memo"`    // 0 empty, 1 one byte, 2 long
	Timeout     int   `json:"timeout"` // 0 zero, 1 past, 2 this height, 3 future
	Sig         int   `json:"sig"`     // 0 good, 1 wrong key, 2 wrong sequence, 3 wrong chain id
	Extra       []int `json:"extra,omitempty"`
	MultiSigner bool  `json:"multi_signer,omitempty"`
	// TwoSigners (multi-message cells): the messages after the first name a second account (the relayer voter) as their
	// signer, and the transaction carries both signatures: it has two signers and must be refused in every mode
	TwoSigners bool `json:"two_signers,omitempty"`
}

type AnteCase struct {
	Cells []AnteCell `json:"cells"`
}

const ethBlockURL = "/goat.goat.v1.MsgNewEthBlock"

// typeBlockMsg as a cell's type index means the execution-block message (whatever its place in the sorted type list)
const typeBlockMsg = 1000

func isBridgeOrRelayer(url string) bool {
	return strings.HasPrefix(url, "/goat.bitcoin.v1.") || strings.HasPrefix(url, "/goat.relayer.v1.")
}

type anteFixture struct {
	sim      *world.Sim
	urls     []string
	stranger world.Account
}

func registeredMsgURLs(n *world.Node) []string {
	urls := n.App.AppCodec().InterfaceRegistry().ListImplementations("cosmos.base.v1beta1.Msg")
	sort.Strings(urls)
	return urls
}

func newAnteFixture() (*anteFixture, error) {
	spec := world.DefaultSpec(2, 2)
	spec.RelayerParams.ElectingPeriod = 1000 * time.Hour
	stranger := world.NewAccount(world.DomStranger, 1)
	spec.ExtraAccounts = []world.Account{stranger}
	s, err := world.NewSim(spec)
	if err != nil {
		return nil, err
	}
	for i := 0; i < 3; i++ {
		if _, err := s.Step(world.StepOpts{DT: 5 * time.Second, Proposer: -1}); err != nil {
			s.Close()
			return nil, err
		}
	}
	return &anteFixture{sim: s, urls: registeredMsgURLs(s.Node), stranger: stranger}, nil
}

// genericMsg builds an instance of a registered message type by reflection and
// sets its signer field (from the cosmos.msg.v1.signer option) to addr.
func genericMsg(n *world.Node, url, addr string) (sdk.Msg, error) {
	m, err := n.App.AppCodec().InterfaceRegistry().Resolve(url)
	if err != nil {
		return nil, err
	}
	d, err := proto.HybridResolver.FindDescriptorByName(protoreflect.FullName(url[1:]))
	if err != nil {
		return nil, err
	}
	fields, _ := protov2.GetExtension(d.(protoreflect.MessageDescriptor).Options(), msgv1.E_Signer).([]string)
	if len(fields) == 0 {
		return nil, fmt.Errorf("%s has no signer option", url)
	}
	v := reflect.ValueOf(m).Elem()
	set := false
	for i := 0; i < v.NumField(); i++ {
		tag := v.Type().Field(i).Tag.Get("protobuf")
		if strings.Contains(tag, "name="+fields[0]+",") && v.Field(i).Kind() == reflect.String {
			v.Field(i).SetString(addr)
			set = true
		}
	}
	if !set {
		return nil, fmt.Errorf("%s: signer field %q not found", url, fields[0])
	}
	msg, ok := m.(sdk.Msg)
	if !ok {
		return nil, fmt.Errorf("%s is not an sdk.Msg", url)
	}
	return msg, nil
}

func (f *anteFixture) signerAccount(cls int, blk world.Block) (world.Account, bool) {
	switch cls {
	case sgProposer:
		return world.NewAccount(world.DomRelayer, 0), true
	case sgVoter:
		return world.NewAccount(world.DomRelayer, 1), true
	case sgValidator:
		for i := 0; i < 2; i++ {
			a := world.NewAccount(world.DomValidator, i)
			if string(a.Addr()) != string(blk.Proposer) {
				return a, true
			}
		}
	case sgStranger:
		return f.stranger, true
	case sgBlockProposer:
		return f.sim.Keys[string(blk.Proposer)], true
	}
	return world.NewAccount(world.DomStranger, 77), false
}

// runAnteCell executes one cell and compares with the admission predicate.
func (f *anteFixture) runAnteCell(c AnteCell) (*Failure, string, bool) {
	n := f.sim.Node
	typeURL := func(i int) string {
		if i == typeBlockMsg {
			return ethBlockURL
		}
		return f.urls[abs(i)%len(f.urls)]
	}
	url := typeURL(c.Type)
	mode := abs(c.Mode) % numModes
	blk, ethTxs, err := f.sim.Begin(world.StepOpts{DT: 5 * time.Second, Proposer: -1})
	if err != nil {
		return failf("fixture", "begin-failed", "%v", err), "", false
	}
	height := uint64(blk.Height)
	acc, hasAccount := f.signerAccount(abs(c.Signer)%numSigners, blk)
	urlsInTx := []string{url}
	for _, e := range c.Extra {
		urlsInTx = append(urlsInTx, typeURL(e))
	}
	var msgs []sdk.Msg
	second := world.NewAccount(world.DomRelayer, 1)
	for ui, u := range urlsInTx {
		who := acc.Bech32()
		if c.TwoSigners && ui > 0 && len(c.Extra) > 0 {
			who = second.Bech32()
		}
		m, err := genericMsg(n, u, who)
		if err != nil {
			return failf("fixture", "generic-message-failed", "%v", err), "", false
		}
		msgs = append(msgs, m)
	}
	o := world.TxOpts{}
	switch c.Memo % 3 {
	case 1:
		o.Memo = "x"
	case 2:
		o.Memo = strings.Repeat("memo", 40)
	}
	switch c.Timeout % 4 {
	case 1:
		o.TimeoutHeight = height - 2
	case 2:
		o.TimeoutHeight = height
	case 3:
		o.TimeoutHeight = height + 50
	}
	num, seq, _ := n.AccountInfo(acc.Addr())
	bump := uint64(0)
	if mode == modeProcess || mode == modeFinalize {
		if string(acc.Addr()) == string(blk.Proposer) {
			bump = 1 // the execution-block transaction of this block uses the current sequence
		}
	}
	sigOK := hasAccount
	switch c.Sig % 4 {
	case 1:
		w := world.NewAccount(world.DomStranger, 500)
		o.SignWith = &w
		sigOK = false
	case 2:
		s := seq + bump + 1
		o.SignSeq = &s
		sigOK = false
	case 3:
		o.SignChainID = "another-chain"
		sigOK = false
	}
	if c.MultiSigner {
		x := world.NewAccount(world.DomStranger, 600)
		o.ExtraSigner = &x
	}
	twoSigners := c.TwoSigners && len(c.Extra) > 0 && second.Bech32() != acc.Bech32()
	if twoSigners {
		o.ExtraSigner = &second
	}
	rawOpts := o
	if rawOpts.TimeoutHeight == 0 && c.Timeout%4 == 0 {
		// SignTx/Node.Tx treat 0 as "no timeout"
	}
	raw, err := world.SignTx(n.TxCfg, n.ChainID, acc, num, seq+bump, rawOpts, msgs...)
	if err != nil {
		return failf("fixture", "tx-build-failed", "%v", err), "", false
	}

	// ---- the admission predicate, written from the statement ----
	inBlock := mode == modeProcess || mode == modeFinalize
	typesOK := true
	for _, u := range urlsInTx {
		switch {
		case u == ethBlockURL:
			if !(inBlock && c.Timeout%4 == 2) {
				typesOK = false
			}
		case isBridgeOrRelayer(u):
			if abs(c.Signer)%numSigners != sgProposer {
				typesOK = false
			}
		default:
			typesOK = false
		}
	}
	timeoutOK := c.Timeout%4 != 1
	admitted := c.Memo%3 == 0 && timeoutOK && sigOK && typesOK && !c.MultiSigner && !twoSigners
	label := fmt.Sprintf("%s/%s/%s", modeNames[mode], signerNames[abs(c.Signer)%numSigners], shortURL(url))
	desc := fmt.Sprintf("%v mode=%s signer=%s memo=%d timeout=%d sig=%d multiSigner=%v", urlsInTx, modeNames[mode], signerNames[abs(c.Signer)%numSigners], c.Memo%3, c.Timeout%4, c.Sig%4, c.MultiSigner)

	switch mode {
	case modeCheck, modeRecheck:
		resp, err := n.CheckTx(raw, false)
		if err != nil {
			return failf("no-crash", "checktx-failed", "%s: %v", desc, err), label, admitted
		}
		if (resp.Code == 0) != admitted {
			return failf("admission", admissionSig(admitted, urlsInTx, mode), "%s: CheckTx code=%d log=%q, predicate says admitted=%v", desc, resp.Code, resp.Log, admitted), label, admitted
		}
		if mode == modeRecheck && admitted {
			// a block passes; the very same bytes are re-checked at the new height
			if _, err := f.sim.Exec(blk, ethTxs, false); err != nil {
				return failf("block-processing", "block-failed", "%v", err), label, admitted
			}
			resp, err := n.CheckTx(raw, true)
			if err != nil {
				return failf("no-crash", "checktx-failed", "%s: %v", desc, err), label, admitted
			}
			still := c.Timeout%4 != 2 || true // timeout == previous next-height: not yet expired for CheckTx's height
			if (resp.Code == 0) != still {
				return failf("admission", "recheck-disagrees", "%s: recheck code=%d log=%q", desc, resp.Code, resp.Log), label, admitted
			}
			return f.freshMempool(), label, admitted
		}
		// reset the check state; an admitted transaction is dropped from the node's mempool
		if _, err := f.sim.Exec(blk, ethTxs, false); err != nil {
			return failf("block-processing", "block-failed", "%v", err), label, admitted
		}
		if admitted {
			if fl := f.freshMempool(); fl != nil {
				return fl, label, admitted
			}
		}
	case modeProcess:
		txs := append(append([][]byte{}, ethTxs...), raw)
		resp, err := n.Process(blk.ProcessReq(txs))
		if err != nil {
			return failf("no-crash", "process-failed", "%s: %v", desc, err), label, admitted
		}
		accept := resp.Status == abci.ResponseProcessProposal_ACCEPT
		hasEth := false
		for _, u := range urlsInTx {
			if u == ethBlockURL {
				hasEth = true
			}
		}
		if hasEth {
			// placement of the block message is C08's subject; here only: never accepted beside another block message
			if accept {
				return failf("admission", "second-block-message-accepted", "%s: proposal with a second execution-block message accepted", desc), label, admitted
			}
		} else if accept != admitted {
			return failf("admission", admissionSig(admitted, urlsInTx, mode), "%s: ProcessProposal accept=%v, predicate says admitted=%v", desc, accept, admitted), label, admitted
		}
		if _, err := f.sim.Exec(blk, ethTxs, false); err != nil {
			return failf("block-processing", "block-failed", "%v", err), label, admitted
		}
	case modeFinalize:
		txs := append(append([][]byte{}, ethTxs...), raw)
		tw, err := f.sim.ExecTwin(blk, ethTxs, txs)
		if err != nil {
			return failf("block-processing", "block-failed", "%s: %v", desc, err), label, admitted
		}
		_, seqAfter, _ := f.sim.Node.AccountInfo(acc.Addr())
		advanced := hasAccount && seqAfter == seq+bump+1
		if advanced != admitted {
			res := tw.With.TxResults[len(tw.With.TxResults)-1]
			return failf("admission", admissionSig(admitted, urlsInTx, mode), "%s: sequence %d -> %d (tx code=%d log=%q), predicate says admitted=%v", desc, seq, seqAfter, res.Code, res.Log, admitted), label, admitted
		}
		if !admitted && tw.DumpWith.Hash() != tw.DumpWithout.Hash() {
			return failf("no-effect", "unadmitted-transaction-changed-state", "%s: module state differs from the block without it: %v", desc, tw.DumpWith.Diff(tw.DumpWithout)), label, admitted
		}
		nonBridge := false
		for _, u := range urlsInTx {
			if !isBridgeOrRelayer(u) && u != ethBlockURL {
				nonBridge = true
			}
		}
		if nonBridge && tw.DumpWith.Hash() != tw.DumpWithout.Hash() {
			return failf("no-effect", "foreign-message-took-effect", "%s: a non-bridge message changed module state", desc), label, admitted
		}
	case modePrepare:
		// into the mempool through CheckTx, then the real proposal builder
		resp, err := n.CheckTx(raw, false)
		if err != nil {
			return failf("no-crash", "checktx-failed", "%s: %v", desc, err), label, admitted
		}
		if (resp.Code == 0) != admitted {
			return failf("admission", admissionSig(admitted, urlsInTx, mode), "%s: CheckTx code=%d log=%q, predicate says admitted=%v", desc, resp.Code, resp.Log, admitted), label, admitted
		}
		// a transaction admitted with timeout == this height goes stale if the node only proposes later
		stale := admitted && c.Timeout%4 == 2
		if stale {
			if _, err := f.sim.Exec(blk, ethTxs, false); err != nil {
				return failf("block-processing", "block-failed", "%v", err), label, admitted
			}
			blk, ethTxs, err = f.sim.Begin(world.StepOpts{DT: 5 * time.Second, Proposer: -1})
			if err != nil {
				return failf("fixture", "begin-failed", "%v", err), label, admitted
			}
			label += "/stale"
		}
		// the node holds validator key 0; only then can it build a proposal
		if string(blk.Proposer) == string(world.NewAccount(world.DomValidator, 0).Addr()) {
			pr, err := n.Prepare(blk.PrepareReq(nil))
			if err != nil {
				return failf("no-crash", "prepare-failed", "%s: %v", desc, err), label, admitted
			}
			included := false
			for _, tx := range pr.Txs {
				if string(tx) == string(raw) {
					included = true
				}
			}
			if included && (!admitted || stale) {
				sig := admissionSig(false, urlsInTx, mode)
				if stale {
					sig = "expired-transaction-proposed/prepare"
				}
				return failf("admission", sig, "%s: an inadmissible (stale=%v) transaction was put into a proposal at height %d", desc, stale, blk.Height), label, admitted
			}
			if len(pr.Txs) > 0 {
				if _, m, _ := decodeEthBlockTx(n, pr.Txs[0]); m == nil {
					// engine hiccup under load: the SDK falls back to the raw mempool list; not this property's subject
					label += "/prepare-fallback"
				} else {
					// the block message this node has just built, followed by the crafted transaction, comes back as a proposal
					pp, err := n.Process(blk.ProcessReq([][]byte{pr.Txs[0], raw}))
					if err != nil {
						return failf("no-crash", "process-failed", "%s: %v", desc, err), label, admitted
					}
					accept := pp.Status == abci.ResponseProcessProposal_ACCEPT
					want := admitted && !stale
					for _, u := range urlsInTx {
						if u == ethBlockURL {
							want = false
						}
					}
					if accept != want {
						return failf("admission", admissionSig(want, urlsInTx, modeProcess), "%s: ProcessProposal of [own block message, this transaction] accept=%v, predicate says %v", desc, accept, want), label, admitted
					}
					label += "/own-proposal-extended"
				}
			}
		}
		if _, err := f.sim.Exec(blk, ethTxs, false); err != nil {
			return failf("block-processing", "block-failed", "%v", err), label, admitted
		}
		if admitted {
			if fl := f.freshMempool(); fl != nil {
				return fl, label, admitted
			}
		}
	}
	return nil, label, admitted
}

// freshMempool restarts the node (the application mempool lives in the process)
// and commits one empty block, because right after a restart the check state
// has height 0 until the first commit.
func (f *anteFixture) freshMempool() *Failure {
	n2, err := f.sim.Node.Restart()
	if err != nil {
		return failf("restart", "restart-failed", "%v", err)
	}
	f.sim.Node = n2
	if _, err := f.sim.Step(world.StepOpts{DT: 5 * time.Second, Proposer: -1}); err != nil {
		return failf("block-processing", "block-failed", "%v", err)
	}
	return nil
}

func shortURL(u string) string {
	i := strings.LastIndexByte(u, '.')
	pkg := strings.Split(strings.TrimPrefix(u, "/"), ".")
	if len(pkg) > 1 {
		return pkg[0] + "." + pkg[1] + "." + u[i+1:]
	}
	return u
}

func admissionSig(want bool, urls []string, mode int) string {
	if want {
		return "admissible-transaction-refused/" + modeNames[mode]
	}
	for _, u := range urls {
		if u == ethBlockURL {
			return "block-message-admitted/" + modeNames[mode]
		}
		if !isBridgeOrRelayer(u) {
			return "foreign-message-admitted/" + modeNames[mode]
		}
	}
	return "inadmissible-transaction-admitted/" + modeNames[mode]
}

func runAnteCase(c AnteCase) Outcome {
	o := Outcome{}
	f, err := newAnteFixture()
	if err != nil {
		o.Fail = failf("fixture", "fixture-failed", "%v", err)
		return o
	}
	defer func() { f.sim.Close() }()
	keys := []string{}
	for _, cell := range c.Cells {
		fl, label, admitted := f.runAnteCell(cell)
		o.Evals++
		o.NonTrivial = true
		o.Classes = append(o.Classes, label)
		if admitted {
			o.Classes = append(o.Classes, "admitted")
		}
		keys = append(keys, fmt.Sprintf("%+v", cell))
		if fl != nil {
			o.Fail = fl
			return o
		}
	}
	o.Key = strings.Join(keys, ";")
	return o
}

func genAnteCell(t *rapid.T, multi bool) AnteCell {
	c := AnteCell{
		Type:    rapid.IntRange(0, 13).Draw(t, "type"),
		Mode:    rapid.SampledFrom([]int{modeCheck, modeRecheck, modeProcess, modeFinalize, modeFinalize, modePrepare}).Draw(t, "mode"),
		Signer:  rapid.IntRange(0, numSigners-1).Draw(t, "signer"),
		Memo:    rapid.SampledFrom([]int{0, 0, 0, 1, 2}).Draw(t, "memo"),
		Timeout: rapid.SampledFrom([]int{0, 0, 2, 2, 1, 3}).Draw(t, "timeout"),
		Sig:     rapid.SampledFrom([]int{0, 0, 0, 0, 1, 2, 3}).Draw(t, "sig"),
	}
	if rapid.IntRange(0, 2).Draw(t, "proposerBias") > 0 {
		c.Signer = sgProposer
	}
	if multi {
		k := rapid.IntRange(1, 2).Draw(t, "extra")
		for i := 0; i < k; i++ {
			c.Extra = append(c.Extra, rapid.IntRange(0, 13).Draw(t, "extraType"))
		}
		c.MultiSigner = rapid.IntRange(0, 5).Draw(t, "multiSigner") == 0
		c.TwoSigners = !c.MultiSigner && rapid.IntRange(0, 5).Draw(t, "twoSigners") == 0
		if rapid.IntRange(0, 9).Draw(t, "hiddenBlockMsg") == 0 {
			// a later transaction of the block made of block messages only (or a block message beside a bridge message),
			// signed by the block's proposer with the timeout the guard wants
			eth := typeBlockMsg
			if eth >= 0 {
				c.Type, c.Extra, c.Signer, c.Timeout, c.Memo, c.Sig, c.MultiSigner = eth, []int{eth}, sgBlockProposer, 2, 0, 0, false
				c.Mode = rapid.SampledFrom([]int{modeProcess, modeProcess, modeFinalize, modePrepare}).Draw(t, "hiddenMode")
			}
		}
	}
	return c
}

func TestC10_Combos(t *testing.T) {
	RunProp(t, Prop[AnteCase]{
		ID: "C10", Name: "combos", Quick: 320, Thor: 8000,
		Gen: func(t *rapid.T) AnteCase {
			var c AnteCase
			n := rapid.IntRange(4, 24).Draw(t, "cells")
			for i := 0; i < n; i++ {
				c.Cells = append(c.Cells, genAnteCell(t, rapid.IntRange(0, 2).Draw(t, "multi") > 0))
			}
			return c
		},
		Run:  runAnteCase,
		Rule: "generated sequences of 4-24 crafted transactions on one live chain: single- and multi-message transactions (pairs/triples mixing allowed and forbidden types, the block message beside others), multi-signer transactions (a second signature, or messages naming two different signers), memos, timeouts, signature faults, every signer class, all five modes (prepare through CheckTx + the real proposal builder, whose block message followed by the crafted transaction is then given back to ProcessProposal); evaluations count transactions",
	})
}

// TestC10_Matrix enumerates the complete single-message matrix.
func TestC10_Matrix(t *testing.T) {
	const chunk = 24
	var all []AnteCell
	for ty := 0; ty < 14; ty++ {
		for mode := 0; mode < 4; mode++ { // prepare mode is sampled by the combos property (50 ms sleep per proposal)
			for sg := 0; sg < numSigners; sg++ {
				for memo := 0; memo < 2; memo++ {
					for to := 0; to < 4; to++ {
						for sig := 0; sig < 4; sig++ {
							all = append(all, AnteCell{Type: ty, Mode: mode, Signer: sg, Memo: memo, Timeout: to, Sig: sig})
						}
					}
				}
			}
		}
	}
	RunEnum(t, Prop[AnteCase]{
		ID: "C10", Name: "matrix", Run: runAnteCase,
		Rule: "exhaustive single-message matrix: every registered message type (14, read from the interface registry at run time) x mode {check, recheck, process, finalize} x signer {relayer proposer, voter, validator, stranger, unknown account, block proposer} x memo {none, 1 byte} x timeout {0, past, this height, future} x signature {good, wrong key, wrong sequence, wrong chain id}; all 10752 cells in both tiers; oracle = admission predicate from the statement; observables: CheckTx code, ProcessProposal status, account sequence advance, twin-execution store equality",
	}, func(yield func(AnteCase) bool) {
		for i := 0; i < len(all); i += chunk {
			j := i + chunk
			if j > len(all) {
				j = len(all)
			}
			if !yield(AnteCase{Cells: all[i:j]}) {
				return
			}
		}
	})
}
