package props

// Independent Bitcoin address codecs (BIP-173 Bech32, BIP-350 Bech32m,
// Base58Check) written from the specifications; used as the oracle for address
// decoding and to build withdrawal addresses.  No btcutil here.

import (
	"crypto/sha256"
	"errors"
	"math/big"
	"strings"
)

const bech32Charset = "qpzry9x8gf2tvdw0s3jn54khce6mua7l"

func bech32Polymod(values []byte) uint32 {
	gen := []uint32{0x3b6a57b2, 0x26508e6d, 0x1ea119fa, 0x3d4233dd, 0x2a1462b3}
	chk := uint32(1)
	for _, v := range values {
		top := chk >> 25
		chk = (chk&0x1ffffff)<<5 ^ uint32(v)
		for i := 0; i < 5; i++ {
			if (top>>uint(i))&1 == 1 {
				chk ^= gen[i]
			}
		}
	}
	return chk
}

func bech32HrpExpand(hrp string) []byte {
	out := make([]byte, 0, len(hrp)*2+1)
	for _, c := range hrp {
		out = append(out, byte(c)>>5)
	}
	out = append(out, 0)
	for _, c := range hrp {
		out = append(out, byte(c)&31)
	}
	return out
}

const (
	bech32Const  = 1
	bech32mConst = 0x2bc830a3
)

func bech32Encode(hrp string, data []byte, constant uint32) string {
	values := append(bech32HrpExpand(hrp), data...)
	values = append(values, 0, 0, 0, 0, 0, 0)
	mod := bech32Polymod(values) ^ constant
	var sb strings.Builder
	sb.WriteString(hrp)
	sb.WriteByte('1')
	for _, d := range data {
		sb.WriteByte(bech32Charset[d])
	}
	for i := 0; i < 6; i++ {
		sb.WriteByte(bech32Charset[(mod>>uint(5*(5-i)))&31])
	}
	return sb.String()
}

func convertBits(data []byte, from, to uint, pad bool) ([]byte, error) {
	acc, bits := uint32(0), uint(0)
	var out []byte
	maxv := uint32(1)<<to - 1
	for _, b := range data {
		if uint32(b)>>from != 0 {
			return nil, errors.New("invalid data range")
		}
		acc = acc<<from | uint32(b)
		bits += from
		for bits >= to {
			bits -= to
			out = append(out, byte(acc>>bits&maxv))
		}
	}
	if pad {
		if bits > 0 {
			out = append(out, byte(acc<<(to-bits)&maxv))
		}
	} else if bits >= from || (acc<<(to-bits))&maxv != 0 {
		return nil, errors.New("invalid padding")
	}
	return out, nil
}

// bech32SegwitAddr encodes a witness program (v0 -> bech32, v1+ -> bech32m).
func bech32SegwitAddr(hrp string, ver byte, prog []byte) (string, error) {
	conv, err := convertBits(prog, 8, 5, true)
	if err != nil {
		return "", err
	}
	c := uint32(bech32mConst)
	if ver == 0 {
		c = bech32Const
	}
	return bech32Encode(hrp, append([]byte{ver}, conv...), c), nil
}

// segwitAddrWithConst lets tests build v0-with-bech32m and v1-with-bech32 strings.
func segwitAddrWithConst(hrp string, ver byte, prog []byte, c uint32) string {
	conv, _ := convertBits(prog, 8, 5, true)
	return bech32Encode(hrp, append([]byte{ver}, conv...), c)
}

const b58Alphabet = "123456789ABCDEFGHJKLMNPQRSTUVWXYZabcdefghijkmnopqrstuvwxyz"

func base58Encode(b []byte) string {
	x := new(big.Int).SetBytes(b)
	base := big.NewInt(58)
	mod := new(big.Int)
	var out []byte
	for x.Sign() > 0 {
		x.DivMod(x, base, mod)
		out = append(out, b58Alphabet[mod.Int64()])
	}
	for _, v := range b {
		if v != 0 {
			break
		}
		out = append(out, b58Alphabet[0])
	}
	for i, j := 0, len(out)-1; i < j; i, j = i+1, j-1 {
		out[i], out[j] = out[j], out[i]
	}
	return string(out)
}

func base58CheckEncode(version byte, payload []byte) string {
	b := append([]byte{version}, payload...)
	h1 := sha256.Sum256(b)
	h2 := sha256.Sum256(h1[:])
	return base58Encode(append(b, h2[:4]...))
}

// netPrefixes are the address parameters of the four configured networks,
// from the Bitcoin Core chain parameters.
type netPrefixes struct {
	Name   string
	P2PKH  byte
	P2SH   byte
	Bech32 string
}

var netTable = []netPrefixes{
	{"mainnet", 0x00, 0x05, "bc"},
	{"testnet3", 0x6f, 0xc4, "tb"},
	{"signet", 0x6f, 0xc4, "tb"},
	{"regtest", 0x6f, 0xc4, "bcrt"},
}

func netByName(n string) netPrefixes {
	for _, p := range netTable {
		if p.Name == n {
			return p
		}
	}
	panic("unknown network " + n)
}

// bech32Decode decodes a segwit address; it reports which checksum constant matched.
func bech32Decode(addr string) (hrp string, ver byte, prog []byte, isM bool, err error) {
	lower, upper := strings.ToLower(addr), strings.ToUpper(addr)
	if addr != lower && addr != upper {
		return "", 0, nil, false, errors.New("mixed case")
	}
	addr = lower
	pos := strings.LastIndexByte(addr, '1')
	if pos < 1 || pos+7 > len(addr) || len(addr) > 90 {
		return "", 0, nil, false, errors.New("bad separator position")
	}
	hrp = addr[:pos]
	var data []byte
	for _, c := range addr[pos+1:] {
		i := strings.IndexRune(bech32Charset, c)
		if i < 0 {
			return "", 0, nil, false, errors.New("bad character")
		}
		data = append(data, byte(i))
	}
	switch bech32Polymod(append(bech32HrpExpand(hrp), data...)) {
	case bech32Const:
	case bech32mConst:
		isM = true
	default:
		return "", 0, nil, false, errors.New("bad checksum")
	}
	data = data[:len(data)-6]
	if len(data) < 1 {
		return "", 0, nil, false, errors.New("empty data")
	}
	ver = data[0]
	prog, err = convertBits(data[1:], 5, 8, false)
	if err != nil {
		return "", 0, nil, false, err
	}
	if ver > 16 || len(prog) < 2 || len(prog) > 40 {
		return "", 0, nil, false, errors.New("bad witness program")
	}
	if ver == 0 && len(prog) != 20 && len(prog) != 32 {
		return "", 0, nil, false, errors.New("bad v0 program length")
	}
	if (ver == 0) == isM {
		return "", 0, nil, false, errors.New("wrong checksum variant for version")
	}
	return hrp, ver, prog, isM, nil
}

// witnessScript is the output script of a witness program.
func witnessScript(ver byte, prog []byte) []byte {
	op := byte(0)
	if ver > 0 {
		op = 0x50 + ver
	}
	return append([]byte{op, byte(len(prog))}, prog...)
}
