package props

// C20 — bridge parameters set from the execution layer stay within safe bounds.

import (
	"fmt"
	"testing"
	"time"

	"github.com/ethereum/go-ethereum/core/types/goattypes"
	bitcointypes "github.com/goatnetwork/goat/x/bitcoin/types"
	"pgregory.net/rapid"
	"verif/harness/world"
)

type TaxReq struct {
	Rate uint64 `json:"rate"`
	Max  uint64 `json:"max"`
}

// ParamRound is one execution block's parameter requests plus deposit probes afterwards.
type ParamRound struct {
	Taxes  []TaxReq  `json:"taxes"`
	Confs  []uint64  `json:"confs"`
	Mins   []uint64  `json:"mins"`
	Probes []DepStep `json:"probes"`
}

type ParamCase struct {
	Genesis DepParams    `json:"genesis"`
	Keys    []KeySpec    `json:"keys"`
	Blocks  []DepBlock   `json:"blocks"`
	Rounds  []ParamRound `json:"rounds"`
}

var boundary64 = []uint64{0, 1, 2, 999, 1000, 1001, 5000, 9998, 9999, 10_000, 10_001, 20_000, 1 << 32, 1 << 63, 1<<64 - 1}

func genParamCase(t *rapid.T) ParamCase {
	c := ParamCase{Genesis: genDepParams(t), Keys: genKeys(t)}
	if c.Genesis.Rate >= 10_000 {
		c.Genesis.Rate = 9999
	}
	c.Blocks = genDepBlocks(t, c.Genesis, c.Keys, rapid.IntRange(2, 6).Draw(t, "nblocks"), true)
	u64 := rapid.OneOf(rapid.SampledFrom(boundary64), rapid.Uint64())
	nr := rapid.IntRange(1, 8).Draw(t, "rounds")
	for i := 0; i < nr; i++ {
		var r ParamRound
		for j, n := 0, rapid.IntRange(0, 3).Draw(t, "ntax"); j < n; j++ {
			r.Taxes = append(r.Taxes, TaxReq{Rate: u64.Draw(t, "rate"), Max: u64.Draw(t, "max")})
		}
		for j, n := 0, rapid.IntRange(0, 2).Draw(t, "nconf"); j < n; j++ {
			r.Confs = append(r.Confs, u64.Draw(t, "conf"))
		}
		for j, n := 0, rapid.IntRange(0, 3).Draw(t, "nmin"); j < n; j++ {
			r.Mins = append(r.Mins, u64.Draw(t, "min"))
		}
		for j, n := 0, rapid.IntRange(1, 6).Draw(t, "nprobes"); j < n; j++ {
			st := genDepStep(t, len(c.Blocks))
			st.Mut = 0
			r.Probes = append(r.Probes, st)
		}
		c.Rounds = append(c.Rounds, r)
	}
	return c
}

func runParamCase(c ParamCase) Outcome {
	o := Outcome{}
	f, err := newDepFixture(c.Genesis, c.Keys, c.Blocks)
	if err != nil {
		o.Fail = failf("fixture", "fixture-failed", "%v", err)
		return o
	}
	defer f.close()
	// model of the three guarded parameters
	rate, minDep, conf := c.Genesis.Rate, c.Genesis.MinDep, uint64(1)
	genesisMin := c.Genesis.MinDep
	sawOut, sawIn := map[string]bool{}, map[string]bool{}
	for ri, r := range c.Rounds {
		br := goattypes.BridgeRequests{}
		capKnown, capWant := false, uint64(0)
		allIn := true
		for _, tx := range r.Taxes {
			br.DepositTax = append(br.DepositTax, &goattypes.DepositTaxRequest{Rate: tx.Rate, Max: tx.Max})
			if tx.Rate < 10_000 {
				rate = tx.Rate
				sawIn["tax"] = true
			} else {
				allIn = false
				sawOut["tax"] = true
			}
			capWant = tx.Max
		}
		if len(r.Taxes) > 0 && allIn {
			capKnown = true
		}
		for _, n := range r.Confs {
			br.Confirmation = append(br.Confirmation, &goattypes.ConfirmationNumberRequest{Number: n})
			if n >= 1 {
				conf = n
				sawIn["conf"] = true
			} else {
				sawOut["conf"] = true
			}
		}
		for _, m := range r.Mins {
			br.MinDeposit = append(br.MinDeposit, &goattypes.MinDepositRequest{Satoshi: m})
			if m > 1000 {
				minDep = m
				sawIn["min"] = true
			} else {
				sawOut["min"] = true
			}
		}
		res, err := f.sim.Step(world.StepOpts{DT: 5 * time.Second, Proposer: -1, Eth: world.EthBlockOpts{Plan: world.BuildPlan{Requests: br.Encode()}}})
		if err != nil {
			o.Fail = failf("block-processing", "block-failed", "round %d: %v", ri, err)
			return o
		}
		if res.Resp.TxResults[0].Code != 0 {
			o.Fail = failf("block-processing", "eth-block-message-failed", "round %d: parameter requests made the execution-block message fail: %s", ri, res.Resp.TxResults[0].Log)
			return o
		}
		var pr bitcointypes.QueryParamsResponse
		if err := f.sim.Node.Query("/goat.bitcoin.v1.Query/Params", &bitcointypes.QueryParamsRequest{}, &pr); err != nil {
			o.Fail = failf("query", "query-failed", "%v", err)
			return o
		}
		p := pr.Params
		o.Evals++
		switch {
		case p.DepositTaxRate >= 10_000:
			o.Fail = failf("rate<100%", "tax-rate-out-of-bounds", "round %d: tax rate %d", ri, p.DepositTaxRate)
		case p.MinDepositAmount <= 1000 && p.MinDepositAmount != genesisMin:
			o.Fail = failf("min>dust", "min-deposit-at-or-below-dust", "round %d: minimum deposit %d", ri, p.MinDepositAmount)
		case p.ConfirmationNumber < 1:
			o.Fail = failf("confirmations>=1", "zero-confirmations", "round %d: confirmation depth 0", ri)
		case p.DepositTaxRate != rate:
			o.Fail = failf("apply-or-ignore", "tax-rate-model-mismatch", "round %d: rate %d, model %d (requests %+v)", ri, p.DepositTaxRate, rate, r.Taxes)
		case p.MinDepositAmount != minDep:
			o.Fail = failf("apply-or-ignore", "min-deposit-model-mismatch", "round %d: minimum %d, model %d (requests %v)", ri, p.MinDepositAmount, minDep, r.Mins)
		case p.ConfirmationNumber != conf:
			o.Fail = failf("apply-or-ignore", "confirmation-model-mismatch", "round %d: confirmations %d, model %d (requests %v)", ri, p.ConfirmationNumber, conf, r.Confs)
		case capKnown && p.MaxDepositTax != capWant:
			o.Fail = failf("apply-or-ignore", "tax-cap-model-mismatch", "round %d: cap %d, model %d", ri, p.MaxDepositTax, capWant)
		}
		if o.Fail != nil {
			return o
		}
		// consequence: deposits under the current (observed) parameters
		f.params = DepParams{Rate: p.DepositTaxRate, MaxTax: p.MaxDepositTax, MinDep: p.MinDepositAmount, Magic: c.Genesis.Magic}
		for pi, st := range r.Probes {
			msg, b, v, why := f.buildAttempt(st)
			ctx, _ := f.sim.Node.CommittedCtx().CacheContext()
			herr := callNewDeposits(f.sim.Node, ctx, msg)
			o.Evals++
			if (herr == nil) != (v == vAccept) {
				sig := "valid-deposit-rejected"
				if v != vAccept {
					sig = "accepted/" + why
				}
				o.Fail = failf("deposit-under-current-params", sig, "round %d probe %d: value %d under rate=%d cap=%d min=%d: accepted=%v (%v), oracle %v (%s)",
					ri, pi, b.spec.Value, f.params.Rate, f.params.MaxTax, f.params.MinDep, herr == nil, herr, v == vAccept, why)
				return o
			}
			if herr != nil {
				continue
			}
			raws, err := f.sim.Node.App.GoatKeeper.Dequeue(ctx)
			if err != nil {
				o.Fail = failf("hand-over", "dequeue-failed", "%v", err)
				return o
			}
			deps, err := decodeDeposits(raws)
			if err != nil || len(deps) != 1 {
				o.Fail = failf("hand-over", "deposit-not-queued", "accepted deposit produced %d deposit system txs (err %v)", len(deps), err)
				return o
			}
			if fl := checkReceipt(deps[0], b, f.params); fl != nil {
				o.Fail = fl
				return o
			}
		}
	}
	for _, k := range []string{"tax", "conf", "min"} {
		if sawOut[k] && sawIn[k] {
			o.NonTrivial = true
			o.Classes = append(o.Classes, "in+out:"+k)
		}
	}
	o.Classes = append(o.Classes, fmt.Sprintf("rounds=%d", len(c.Rounds)))
	return o
}

func TestC20_Params(t *testing.T) {
	RunProp(t, Prop[ParamCase]{
		ID: "C20", Name: "params", Quick: 1280, Thor: 20_000,
		Gen: genParamCase, Run: runParamCase,
		Rule: "histories of 1-8 execution blocks each carrying 0-3 tax, 0-2 confirmation and 0-3 minimum-deposit requests with boundary-biased 64-bit values (0,1,999,1000,1001,9999,10000,10001,2^32,2^63,2^64-1, random), from generated genesis parameter sets; after every block Query/Params must satisfy the bounds and equal an apply-or-ignore model (last in-range value wins; the cap accompanying an out-of-range rate is unspecified), and 1-6 boundary-valued deposits are verified against the current parameters (accepted iff value >= minimum etc., amount+tax=value, tax<value, amount>0); non-trivial = a history with both an out-of-range and an in-range request for the same parameter",
	})
}
