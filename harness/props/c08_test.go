package props

// C08 — honest proposals are always accepted; accepted proposals are well-formed;
// building and checking proposals is free of data races (the same properties are
// also run from a -race build by ./check).

import (
	"fmt"
	"math/big"
	"os"
	"testing"
	"time"

	abci "github.com/cometbft/cometbft/abci/types"
	sdk "github.com/cosmos/cosmos-sdk/types"
	authtypes "github.com/cosmos/cosmos-sdk/x/auth/types"
	"github.com/ethereum/go-ethereum/common"
	"github.com/ethereum/go-ethereum/core/types/goattypes"
	bitcointypes "github.com/goatnetwork/goat/x/bitcoin/types"
	goatmodtypes "github.com/goatnetwork/goat/x/goat/types"
	"pgregory.net/rapid"
	"verif/harness/world"
)

type MemTx struct {
	Kind string `json:"kind"` // hashvote | consolidation | approve-unknown | stale-seq | deposits-bad
	Arg  int    `json:"arg"`
}

type PropRound struct {
	DT           int     `json:"dt"`
	Proposer     int     `json:"proposer"`
	BadWithdraws int     `json:"bad_withdraws"`
	Claims       int     `json:"claims"`
	Unlocks      int     `json:"unlocks"`
	Mempool      []MemTx `json:"mempool,omitempty"`
	Stale        int     `json:"stale,omitempty"` // honest rounds: 1 = mempool txs expire before the proposal is built, 2 = their sequence is consumed by another tx first
	Mut          int     `json:"mut"`             // 0 = honest round with the real proposal builder; > 0 = mutation kind
	// Prime (deviation rounds): every node first verifies the well-formed proposal of this height (a round that is
	// accepted but never decided), then sees the deviating one
	Prime bool `json:"prime,omitempty"`
	Arg   int  `json:"arg"`
}

type PropCase struct {
	Rounds []PropRound `json:"rounds"`
	// High: the chain starts at height 58 with a halving interval of 1 block, so the history crosses the 64th halving
	High bool `json:"high,omitempty"`
}

var propMutNames = []string{"honest", "no-txs", "17-txs", "first-not-block-msg", "two-msgs-in-first-tx", "second-block-msg-later", "other-author",
	"author-not-consensus-proposer", "fee-recipient-not-author", "wrong-parent", "wrong-number", "wrong-beacon-root", "zero-gas-requests", "two-gas-requests",
	"undecodable-requests", "system-section-deviates", "engine-INVALID", "engine-SYNCING", "engine-ACCEPTED", "engine-error", "future-timestamp",
	"wrong-signature", "wrong-sequence", "wrong-timeout-height", "non-bridge-msg-among-rest", "count-byte-raised", "nil-payload",
	"state-root-changed-hash-kept", "user-tx-appended-hash-kept", "relayer-txs-without-block-msg",
	"fee-recipient-padded", "parent-hash-padded", "beacon-root-padded"}

type propWorld struct {
	c      *world.Cluster
	vf     *voteFixture
	nextID uint64
	nextWd uint64
	btcTip uint64
	salt   uint64
	elHist []common.Hash // execution heads, oldest first
}

func newPropWorld(high bool) (*propWorld, error) {
	world.MempoolMaxTxs = 50
	spec := world.DefaultSpec(2, 2)
	if high {
		spec.InitialHeight = 58
		spec.LockingParams.HalvingInterval = 1
	}
	spec.RelayerParams.ElectingPeriod = 1000 * time.Hour
	spec.LockingParams.UnlockDuration = 7 * time.Second
	spec.LockingParams.ExitingDuration = 30 * time.Second
	c, err := world.NewCluster(spec, 2)
	if err != nil {
		return nil, err
	}
	w := &propWorld{c: c, nextID: 1, nextWd: 1, btcTip: spec.BtcTip, elHist: []common.Hash{world.GenesisELHash}}
	w.vf = &voteFixture{sim: &world.Sim{Spec: spec, Chain: c.Chain, Node: c.Nodes[0], Keys: c.Keys}, n: 2, btcKey: spec.BtcKeys[0]}
	// two plain blocks so that re-checks and restarts have committed state
	for i := 0; i < 2; i++ {
		if fl := w.honestHarnessBlock(5, i%2, world.BuildPlan{}, nil); fl != nil {
			c.Close()
			return nil, fmt.Errorf("%s", fl.Detail)
		}
	}
	return w, nil
}

// honestHarnessBlock advances the chain by one harness-built honest block on all nodes.
func (w *propWorld) honestHarnessBlock(dt, proposer int, plan world.BuildPlan, txs [][]byte) *Failure {
	blk := w.c.Chain.NextBlock(time.Duration(dt)*time.Second, proposer, nil, nil)
	p := w.c.NodeOf(blk)
	raw, msg, err := p.BuildEthBlockTx(blk, w.c.Keys[string(blk.Proposer)], world.EthBlockOpts{Plan: plan})
	if err != nil {
		return failf("fixture", "eth-tx-build-failed", "%v", err)
	}
	all := append([][]byte{raw}, txs...)
	resp, err := w.c.ExecAll(blk, all)
	if err != nil {
		return failf("block-processing", "block-failed", "%v", err)
	}
	if resp.TxResults[0].Code != 0 {
		return failf("honest-message-succeeds", "honest-eth-message-failed", "harness-built honest block: %s", resp.TxResults[0].Log)
	}
	w.elHist = append(w.elHist, common.BytesToHash(msg.Payload.BlockHash))
	return nil
}

func (w *propWorld) relayerTx(n *world.Node, bump uint64, msg sdk.Msg, o world.TxOpts) ([]byte, error) {
	rv, err := w.c.Nodes[0].RelayerView()
	if err != nil {
		return nil, err
	}
	return n.Tx(w.vf.memberAcc(rv.Proposer), bump, o, msg)
}

// memTx builds one mempool transaction.
func (w *propWorld) memTx(n *world.Node, mt MemTx, bump uint64, opts world.TxOpts) ([]byte, bool, error) {
	rv, err := w.c.Nodes[0].RelayerView()
	if err != nil {
		return nil, false, err
	}
	w.vf.sim.Node = n
	switch mt.Kind {
	case "hashvote":
		w.salt++
		body := voteBody{kind: kindHashes, start: w.btcTip + 1, hashes: [][]byte{world.DSha([]byte(fmt.Sprintf("c08-%d", w.salt)))}}
		msg, err := w.vf.honestMsg(body, rv)
		if err != nil {
			return nil, false, err
		}
		raw, err := w.relayerTx(n, bump, msg, opts)
		return raw, true, err
	case "consolidation":
		w.vf.salt = w.salt + 1000
		w.salt++
		msg, err := w.vf.honestMsg(w.vf.bodyConsolidation(), rv)
		if err != nil {
			return nil, false, err
		}
		raw, err := w.relayerTx(n, bump, msg, opts)
		return raw, true, err
	case "approve-unknown":
		raw, err := w.relayerTx(n, bump, &bitcointypes.MsgApproveCancellation{Proposer: rv.Proposer, Id: []uint64{uint64(900_000 + mt.Arg)}}, opts)
		return raw, true, err
	case "stale-seq":
		prop := w.vf.memberAcc(rv.Proposer)
		num, seq, _ := n.AccountInfo(prop.Addr())
		bad := seq + bump + 5
		raw, err := world.SignTx(n.TxCfg, n.ChainID, prop, num, seq+bump+5, world.TxOpts{SignSeq: &bad}, &bitcointypes.MsgApproveCancellation{Proposer: rv.Proposer, Id: []uint64{1}})
		return raw, false, err
	case "deposits-bad":
		raw, err := w.relayerTx(n, bump, &bitcointypes.MsgNewDeposits{Proposer: rv.Proposer}, world.TxOpts{})
		return raw, true, err
	}
	return nil, false, fmt.Errorf("unknown mempool tx kind %q", mt.Kind)
}

func (w *propWorld) plan(r PropRound) world.BuildPlan {
	br := goattypes.BridgeRequests{}
	lr := goattypes.LockingRequests{}
	for i := 0; i < r.BadWithdraws; i++ {
		br.Withdraws = append(br.Withdraws, &goattypes.WithdrawalRequest{Id: w.nextWd, Amount: 5000, TxPrice: 2, Address: fmt.Sprintf("garbage-%d", w.nextWd)})
		w.nextWd++
	}
	val := world.NewAccount(world.DomValidator, 0)
	for i := 0; i < r.Claims; i++ {
		lr.Claims = append(lr.Claims, &goattypes.ClaimRequest{Id: w.nextID, Validator: val.EthAddr(), Recipient: common.BytesToAddress([]byte{byte(w.nextID)})})
		w.nextID++
	}
	for i := 0; i < r.Unlocks; i++ {
		lr.Unlocks = append(lr.Unlocks, &goattypes.UnlockRequest{Id: w.nextID, Validator: val.EthAddr(), Recipient: common.BytesToAddress([]byte{byte(w.nextID)}), Token: common.Address{}, Amount: big.NewInt(1000)})
		w.nextID++
	}
	return world.BuildPlan{Requests: append(br.Encode(), lr.Encode()...), GasAmount: big.NewInt(int64(1000 + r.Arg))}
}

func (w *propWorld) round(ri int, r PropRound, o *Outcome) *Failure {
	c := w.c
	blk := c.Chain.NextBlock(time.Duration(r.DT)*time.Second, abs(r.Proposer)%2, nil, nil)
	p := c.NodeOf(blk)
	propKey := c.Keys[string(blk.Proposer)]
	plan := w.plan(r)
	mut := abs(r.Mut) % len(propMutNames)
	o.Classes = append(o.Classes, propMutNames[mut])
	if mut == 0 {
		// ---- (a) the honest proposer ----
		bump := uint64(0)
		admitted := 0
		memOpts := world.TxOpts{}
		if r.Stale == 1 {
			memOpts.TimeoutHeight = uint64(blk.Height) // fine now, expired once this height has passed
		}
		for _, mt := range r.Mempool {
			raw, wantIn, err := w.memTx(p, mt, bump, memOpts)
			if err != nil {
				return failf("fixture", "mempool-tx-build-failed", "%v", err)
			}
			resp, err := p.CheckTx(raw, false)
			if err != nil {
				return failf("no-crash", "checktx-failed", "%v", err)
			}
			if resp.Code == 0 {
				bump++
				admitted++
				if mt.Kind == "hashvote" {
					// only the first vote for a sequence can succeed; later ones are "failing" transactions
				}
			}
			_ = wantIn
		}
		if admitted > 0 {
			o.NonTrivial = true
			o.Classes = append(o.Classes, fmt.Sprintf("mempool>=%d", min(admitted/5*5, 15)))
		}
		if r.Stale != 0 && admitted > 0 {
			// the chain moves on before this node gets to propose: the pooled transactions go stale
			var extra [][]byte
			if r.Stale == 2 {
				rv, _ := c.Nodes[0].RelayerView()
				raw, err := p.Tx(w.vf.memberAcc(rv.Proposer), 0, world.TxOpts{}, &bitcointypes.MsgApproveCancellation{Proposer: rv.Proposer, Id: []uint64{930_000}})
				if err != nil {
					return failf("fixture", "tx-build-failed", "%v", err)
				}
				extra = [][]byte{raw} // takes the sequence number the first pooled transaction was signed for
			}
			if fl := w.honestHarnessBlock(r.DT, r.Proposer, world.BuildPlan{}, extra); fl != nil {
				return fl
			}
			blk = c.Chain.NextBlock(time.Duration(r.DT)*time.Second, abs(r.Proposer)%2, nil, nil)
			p = c.NodeOf(blk)
			o.Classes = append(o.Classes, fmt.Sprintf("stale-mempool-%d", r.Stale))
		}
		p.Eng.SetPlan(plan)
		pr, err := p.Prepare(blk.PrepareReq(nil))
		if err != nil {
			return failf("no-crash", "prepare-failed", "%v", err)
		}
		if len(pr.Txs) == 0 {
			o.Inconclusive = true
			return nil
		}
		if _, m, _ := decodeEthBlockTx(p, pr.Txs[0]); m == nil {
			o.Inconclusive = true // engine deadline missed under load: the SDK returned the raw mempool list
			return nil
		}
		if len(pr.Txs) > 16 {
			return failf("16-tx-cap", "proposal-exceeds-16-txs", "round %d: the honest proposer built a block of %d transactions", ri, len(pr.Txs))
		}
		if len(pr.Txs) == 16 {
			o.Classes = append(o.Classes, "cap-reached")
		}
		for i, n := range c.Nodes {
			pp, err := n.Process(blk.ProcessReq(pr.Txs))
			if err != nil {
				return failf("no-crash", "process-failed", "%v", err)
			}
			if pp.Status != abci.ResponseProcessProposal_ACCEPT {
				return failf("honest-accepted", "honest-proposal-rejected", "round %d: node %d rejected the block built by the honest proposer (%d txs)", ri, i, len(pr.Txs))
			}
		}
		resp, err := c.ExecAll(blk, pr.Txs)
		if err != nil {
			return failf("block-processing", "block-failed", "%v", err)
		}
		if resp.TxResults[0].Code != 0 {
			return failf("honest-message-succeeds", "honest-eth-message-failed", "round %d: the execution-block message of the honest proposal failed when finalised: %s", ri, resp.TxResults[0].Log)
		}
		_, m, _ := decodeEthBlockTx(p, pr.Txs[0])
		w.elHist = append(w.elHist, common.BytesToHash(m.Payload.BlockHash))
		for i, tr := range resp.TxResults[1:] {
			if tr.Code == 0 {
				if _, hm, _ := decodeAny(p, pr.Txs[1+i]); hm == "hashvote" {
					w.btcTip++
				}
			}
		}
		// a fresh mempool for the next round
		for i, n := range c.Nodes {
			n2, err := n.Restart()
			if err != nil {
				return failf("restart", "restart-failed", "%v", err)
			}
			c.Nodes[i] = n2
		}
		return w.honestHarnessBlock(1, 0, world.BuildPlan{}, nil)
	}

	// ---- (b) one deviation from a well-formed proposal: every node must reject it ----
	o.NonTrivial = true
	rv, err := c.Nodes[0].RelayerView()
	if err != nil {
		return failf("query", "query-failed", "%v", err)
	}
	relProp := w.vf.memberAcc(rv.Proposer)
	other := c.Keys[string(world.NewAccount(world.DomValidator, 1-abs(r.Proposer)%2).Addr())]
	eo := world.EthBlockOpts{Plan: plan}
	var fault []world.Fault
	applicable := true
	switch propMutNames[mut] {
	case "other-author":
		eo.Mutate = func(m *goatmodtypes.MsgNewEthBlock) { m.Proposer = other.Bech32() }
		eo.MutateEnv = func(a *world.BuildAttrs) { a.FeeRecipient = other.EthAddr() }
		eo.Signer = &other
	case "author-not-consensus-proposer":
		eo.Mutate = func(m *goatmodtypes.MsgNewEthBlock) { m.Proposer = other.Bech32() }
		eo.Signer = &other
	case "fee-recipient-not-author":
		eo.MutateEnv = func(a *world.BuildAttrs) { a.FeeRecipient = other.EthAddr() }
	case "wrong-parent":
		if len(w.elHist) < 2 {
			applicable = false
		}
		eo.MutateEnv = func(a *world.BuildAttrs) { a.Parent = w.elHist[len(w.elHist)-2] }
	case "wrong-number":
		eo.Mutate = func(m *goatmodtypes.MsgNewEthBlock) { m.Payload.BlockNumber++ }
	case "wrong-beacon-root":
		eo.MutateEnv = func(a *world.BuildAttrs) { a.Beacon = common.BytesToHash(world.DSha([]byte("stale-beacon"))) }
		eo.Mutate = func(m *goatmodtypes.MsgNewEthBlock) { m.Payload.BeaconRoot = world.DSha([]byte("stale-beacon")) }
	case "zero-gas-requests":
		eo.Plan.GasCount = -1
	case "two-gas-requests":
		eo.Plan.GasCount = 2
	case "undecodable-requests":
		eo.Plan.Requests = append(eo.Plan.Requests, []byte{0x63, 1, 2, 3})
	case "system-section-deviates":
		eo.MutateEnv = func(a *world.BuildAttrs) {
			if len(a.GoatTxs) > 0 && r.Arg%2 == 0 {
				a.GoatTxs = a.GoatTxs[1:]
			} else {
				fb, _ := bitcointypes.NewRejectEthTx(424242, 77).MarshalBinary()
				a.GoatTxs = append(append([][]byte{}, a.GoatTxs...), fb)
			}
		}
	case "engine-INVALID":
		fault = []world.Fault{{Method: "newPayload", Nth: 0, Kind: world.FaultInvalid}}
	case "engine-SYNCING":
		fault = []world.Fault{{Method: "newPayload", Nth: 0, Kind: world.FaultSyncing}}
	case "engine-ACCEPTED":
		fault = []world.Fault{{Method: "newPayload", Nth: 0, Kind: world.FaultAccepted}}
	case "engine-error":
		fault = []world.Fault{{Method: "newPayload", Nth: 0, Kind: world.FaultRPCError}}
	case "future-timestamp":
		eo.Timestamp = uint64(time.Now().Unix()) + 3600
	case "wrong-signature":
		eo.Tx.SignWith = &other
	case "wrong-sequence":
		_, seq, _ := p.AccountInfo(propKey.Addr())
		bad := seq + 3
		eo.Tx.SignSeq = &bad
	case "wrong-timeout-height":
		eo.Tx.TimeoutHeight = uint64(blk.Height) + 1 + uint64(r.Arg%3)
	case "count-byte-raised":
		eo.Mutate = func(m *goatmodtypes.MsgNewEthBlock) {
			e := append([]byte{}, m.Payload.ExtraData...)
			e[0]++
			m.Payload.ExtraData = e
		}
	case "nil-payload":
		eo.Mutate = func(m *goatmodtypes.MsgNewEthBlock) { m.Payload = nil }
	case "state-root-changed-hash-kept":
		// only the execution engine can notice: the claimed block hash is still the honest block's
		eo.Mutate = func(m *goatmodtypes.MsgNewEthBlock) {
			sr := append([]byte{}, m.Payload.StateRoot...)
			sr[len(sr)-1] ^= 1
			m.Payload.StateRoot = sr
		}
	case "fee-recipient-padded":
		// the right 20 bytes behind 12 extra leading bytes: equal only after cropping
		eo.Mutate = func(m *goatmodtypes.MsgNewEthBlock) {
			m.Payload.FeeRecipient = append(make([]byte, 12), m.Payload.FeeRecipient...)
		}
	case "parent-hash-padded":
		eo.Mutate = func(m *goatmodtypes.MsgNewEthBlock) {
			m.Payload.ParentHash = append([]byte{byte(1 + r.Arg%200)}, m.Payload.ParentHash...)
		}
	case "beacon-root-padded":
		eo.Mutate = func(m *goatmodtypes.MsgNewEthBlock) {
			m.Payload.BeaconRoot = append([]byte{byte(1 + r.Arg%200)}, m.Payload.BeaconRoot...)
		}
	case "user-tx-appended-hash-kept":
		eo.Mutate = func(m *goatmodtypes.MsgNewEthBlock) {
			m.Payload.Transactions = append(append([][]byte{}, m.Payload.Transactions...), []byte{0x02, 0xc0})
		}
	}
	if !applicable {
		return w.honestHarnessBlock(r.DT, r.Proposer, plan, nil)
	}
	if r.Prime {
		honestRaw, _, err := p.BuildEthBlockTx(blk, propKey, world.EthBlockOpts{Plan: plan})
		if err != nil {
			return failf("fixture", "eth-tx-build-failed", "%v", err)
		}
		for i, n := range c.Nodes {
			pp, err := n.Process(blk.ProcessReq([][]byte{honestRaw}))
			if err != nil {
				return failf("no-crash", "process-failed", "%v", err)
			}
			if pp.Status != abci.ResponseProcessProposal_ACCEPT {
				return failf("honest-accepted", "honest-proposal-rejected", "round %d: node %d rejected the well-formed harness-built proposal", ri, i)
			}
		}
		o.Classes = append(o.Classes, "primed")
	}
	ethRaw, ethMsg, err := p.BuildEthBlockTx(blk, propKey, eo)
	if err != nil {
		return failf("fixture", "eth-tx-build-failed", "%v", err)
	}
	approve := func(bump uint64, id uint64) []byte {
		raw, _ := p.Tx(relProp, bump, world.TxOpts{}, &bitcointypes.MsgApproveCancellation{Proposer: rv.Proposer, Id: []uint64{id}})
		return raw
	}
	txs := [][]byte{ethRaw, approve(0, 910_000)}
	switch propMutNames[mut] {
	case "no-txs":
		txs = nil
	case "17-txs":
		txs = [][]byte{ethRaw}
		for i := uint64(0); i < 16; i++ {
			txs = append(txs, approve(i, 920_000+i))
		}
	case "first-not-block-msg":
		txs = [][]byte{approve(0, 910_000), ethRaw}
	case "two-msgs-in-first-tx":
		raw, err := p.Tx(propKey, 0, world.TxOpts{TimeoutHeight: uint64(blk.Height)}, ethMsg, ethMsg)
		if err != nil {
			return failf("fixture", "tx-build-failed", "%v", err)
		}
		txs = [][]byte{raw}
	case "second-block-msg-later":
		raw, err := p.Tx(propKey, 1, world.TxOpts{TimeoutHeight: uint64(blk.Height)}, ethMsg)
		if err != nil {
			return failf("fixture", "tx-build-failed", "%v", err)
		}
		txs = [][]byte{ethRaw, raw}
	case "relayer-txs-without-block-msg":
		// what the SDK proposes when the node's own proposal builder fails: the raw mempool content
		txs = [][]byte{approve(0, 910_000)}
		if r.Arg%2 == 1 {
			txs = append(txs, approve(1, 910_001))
		}
	case "non-bridge-msg-among-rest":
		raw, err := p.Tx(relProp, 0, world.TxOpts{}, &authtypes.MsgUpdateParams{Authority: rv.Proposer, Params: authtypes.DefaultParams()})
		if err != nil {
			return failf("fixture", "tx-build-failed", "%v", err)
		}
		txs = [][]byte{ethRaw, raw}
	}
	for i, n := range c.Nodes {
		n.Eng.ArmFaults(fault)
		pp, err := n.Process(blk.ProcessReq(txs))
		n.Eng.ArmFaults(nil)
		if err != nil {
			return failf("no-crash", "process-failed", "%v", err)
		}
		if pp.Status == abci.ResponseProcessProposal_ACCEPT {
			return failf("accepted-only-if-well-formed", "ill-formed-proposal-accepted/"+propMutNames[mut], "round %d: node %d accepted a proposal with deviation %q", ri, i, propMutNames[mut])
		}
	}
	// the chain goes on with an honest block carrying this round's requests
	return w.honestHarnessBlock(r.DT, r.Proposer, plan, nil)
}

// decodeAny classifies a relayer transaction (only what this file needs).
func decodeAny(n *world.Node, raw []byte) (sdk.Tx, string, error) {
	tx, err := n.TxCfg.TxDecoder()(raw)
	if err != nil {
		return nil, "", err
	}
	for _, m := range tx.GetMsgs() {
		if _, ok := m.(*bitcointypes.MsgNewBlockHashes); ok {
			return tx, "hashvote", nil
		}
	}
	return tx, "other", nil
}

func runPropCase(c PropCase) Outcome {
	o := Outcome{Classes: []string{fmt.Sprintf("high-start=%v", c.High)}}
	w, err := newPropWorld(c.High)
	if err != nil {
		o.Fail = failf("fixture", "fixture-failed", "%v", err)
		return o
	}
	defer func() { w.c.Close() }()
	for ri, r := range c.Rounds {
		if fl := w.round(ri, r, &o); fl != nil {
			o.Fail = fl
			return o
		}
		if o.Inconclusive {
			return o
		}
		o.Evals++
	}
	return o
}

func genPropCase(t *rapid.T) PropCase {
	var c PropCase
	c.High = rapid.IntRange(0, 3).Draw(t, "high") == 0
	n := rapid.IntRange(3, 12).Draw(t, "rounds")
	for i := 0; i < n; i++ {
		r := PropRound{DT: rapid.SampledFrom([]int{1, 3, 5, 8}).Draw(t, "dt"), Proposer: rapid.IntRange(0, 1).Draw(t, "proposer"), Arg: rapid.IntRange(0, 99).Draw(t, "arg")}
		if rapid.IntRange(0, 2).Draw(t, "fill") == 0 {
			r.BadWithdraws = rapid.SampledFrom([]int{0, 1, 9}).Draw(t, "badWd")
			r.Claims = rapid.SampledFrom([]int{0, 1, 17}).Draw(t, "claims")
			r.Unlocks = rapid.SampledFrom([]int{0, 1, 3, 17}).Draw(t, "unlocks")
		}
		if rapid.IntRange(0, 2).Draw(t, "honest") == 0 {
			k := rapid.SampledFrom([]int{0, 0, 1, 3, 14, 15, 16, 22, 40}).Draw(t, "mempool")
			if k > 0 && rapid.IntRange(0, 2).Draw(t, "staleRoll") == 0 {
				r.Stale = rapid.IntRange(1, 2).Draw(t, "stale")
			}
			for j := 0; j < k; j++ {
				r.Mempool = append(r.Mempool, MemTx{Kind: rapid.SampledFrom([]string{"hashvote", "consolidation", "approve-unknown", "approve-unknown", "stale-seq", "deposits-bad"}).Draw(t, "memKind"), Arg: j})
			}
		} else {
			r.Mut = 1 + int(mix64(rapid.Uint64().Draw(t, "mut"))%uint64(len(propMutNames)-1)) // uniform over the deviations
			r.Prime = rapid.IntRange(0, 2).Draw(t, "prime") == 0
		}
		c.Rounds = append(c.Rounds, r)
	}
	return c
}

func TestC08_Proposals(t *testing.T) {
	quick, thor := 200, 6000
	if os.Getenv("VERIF_FLAVOUR") == "race" {
		quick, thor = 48, 1200
	}
	RunProp(t, Prop[PropCase]{
		ID: "C08", Name: "proposals", Quick: quick, Thor: thor, WAL: true,
		Gen: genPropCase, Run: runPropCase,
		Rule: "two-validator chains replicated on two nodes (own stores, own fake execution layers), a quarter of them started at height 58 with a halving interval of one block (the history crosses the 64th halving); histories of 3-12 rounds with states filled by refunds, claims and unlock bursts (matured unlocks included); honest rounds: 0-40 relayer transactions (valid votes, votes for an already used sequence, failing approvals, malformed batches, stale sequences) enter the proposer's mempool through CheckTx, the node holding the proposer's key runs the real PrepareProposal, every node must ACCEPT the result, it must have <= 16 transactions and its execution-block message must succeed in FinalizeBlock; deviation rounds: a well-formed proposal with exactly one of 32 deviations (no/17 transactions, only relayer transactions without a block message, block message not first / not alone / repeated, other author, author != consensus proposer, fee recipient != author, wrong parent / number / beacon root, 0 or 2 gas requests, undecodable requests, deviating system section, engine INVALID/SYNCING/ACCEPTED/error, timestamp 1 h ahead, wrong signature / sequence / timeout height, non-bridge message, raised count byte, nil payload, fee recipient / parent hash / beacon root with extra leading bytes, state root changed or a user transaction appended under the honest block's hash), in a third of these rounds after every node has verified (and accepted) the well-formed proposal of the same height, must be REJECTED by every node; the same property runs in a -race build where any reported data race is a violation; non-trivial = a deviation round or an honest round with a non-empty mempool; evaluations count rounds",
	})
}

// mix64 spreads rapid's small-value-biased integers uniformly (splitmix64 finaliser).
func mix64(x uint64) uint64 {
	x += 0x9e3779b97f4a7c15
	x = (x ^ (x >> 30)) * 0xbf58476d1ce4e5b9
	x = (x ^ (x >> 27)) * 0x94d049bb133111eb
	return x ^ (x >> 31)
}
