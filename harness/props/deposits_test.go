package props

// Shared deposit machinery (C03, C17 app slice, C20): model Bitcoin blocks that
// contain one deposit transaction each, a chain fixture whose genesis holds the
// voted hashes of those blocks, the mutation catalogue and the deposit oracle.

import (
	"fmt"
	"math/big"
	"time"

	"github.com/btcsuite/btcd/wire"
	"github.com/ethereum/go-ethereum/core/types/goattypes"
	bitcointypes "github.com/goatnetwork/goat/x/bitcoin/types"
	relayertypes "github.com/goatnetwork/goat/x/relayer/types"
	"verif/harness/world"
)

const depTip = 400 // bitcoin tip height in deposit fixtures
const depWindow = 130

// KeySpec names a relayer bitcoin key.
type KeySpec struct {
	Idx     int  `json:"idx"`
	Schnorr bool `json:"schnorr"`
}

func (k KeySpec) key() world.BtcKey { return world.NewBtcKey(k.Idx, k.Schnorr) }

// DepBlock describes a model Bitcoin block holding one deposit transaction.
type DepBlock struct {
	Depth   int    `json:"depth"` // tip - height
	NTx     int    `json:"ntx"`
	Pos     int    `json:"pos"`     // position of the deposit tx (mod NTx); 0 = it is the coinbase
	Version int    `json:"version"` // 0 or 1
	Key     int    `json:"key"`     // index into the registered keys; -1 = an unregistered key
	EvmSeed int    `json:"evm_seed"`
	Value   uint64 `json:"value"`
	OutIdx  int    `json:"out_idx"`           // index of the deposit output (version 1 requires 0)
	Pad     int    `json:"pad"`               // unrelated outputs before/after
	CopyOf  int    `json:"copy_of,omitempty"` // 1+index of an earlier model block whose deposit transaction this block contains again (0 = none)
}

// DepParams are the bridge parameters of a fixture.
type DepParams struct {
	Rate   uint64 `json:"rate"`
	MaxTax uint64 `json:"max_tax"`
	MinDep uint64 `json:"min_dep"`
	Magic  []byte `json:"magic"`
}

type builtDepBlock struct {
	coinbasePays bool // pos != 0 and the block's coinbase pays the deposit script too
	twinOut      bool // version 0: output outIdx+1 of the deposit transaction is a second deposit (EVM seed + 1)
	copyOf       *builtDepBlock
	spec         DepBlock
	height       uint64
	blk          *world.BtcBlock
	pos          int
	key          world.BtcKey
	evm          []byte
	outIdx       uint32
	tx           *wire.MsgTx
}

func evmOf(seed int) []byte { return world.Hash160([]byte(fmt.Sprintf("evm-%d", seed))) }

// buildDepBlock constructs the block; keys are the registered keys.
func buildDepBlock(spec DepBlock, keys []KeySpec, magic []byte) *builtDepBlock {
	return buildDepBlockReusing(spec, keys, magic, nil)
}

// buildDepBlockReusing places an already existing transaction (the same txid) into this block.
func buildDepBlockReusing(spec DepBlock, keys []KeySpec, magic []byte, reuse *builtDepBlock) *builtDepBlock {
	if reuse != nil {
		o := reuse.spec
		spec.Version, spec.Key, spec.EvmSeed, spec.Value, spec.OutIdx, spec.Pad = o.Version, o.Key, o.EvmSeed, o.Value, o.OutIdx, o.Pad
		if spec.NTx < 2 {
			spec.NTx = 2
		}
		if spec.Pos%spec.NTx == 0 {
			spec.Pos = 1
		}
	}
	b := &builtDepBlock{spec: spec, height: uint64(depTip - spec.Depth)}
	n := spec.NTx
	if n < 1 {
		n = 1
	}
	b.pos = ((spec.Pos % n) + n) % n
	if spec.Key >= 0 && len(keys) > 0 {
		b.key = keys[spec.Key%len(keys)].key()
	} else {
		b.key = world.NewBtcKey(7000+abs(spec.Key), spec.Version == 0 && spec.EvmSeed%2 == 0)
	}
	b.evm = evmOf(spec.EvmSeed)
	var outs []*wire.TxOut
	pad := func(i int) *wire.TxOut {
		return wire.NewTxOut(int64(30_000+i), world.P2WPKHScript(world.Hash160([]byte{byte(i), byte(spec.EvmSeed)})))
	}
	if spec.Version == 1 {
		k := b.key
		if k.Schnorr {
			k = world.NewBtcKey(k.Idx, false) // scripts as a confused depositor would build them
		}
		o0, o1 := world.DepositScriptsV1(k, magic, b.evm)
		if b.key.Schnorr && spec.EvmSeed%2 == 1 {
			o0 = world.SystemScript(b.key) // the Schnorr key's own key-path output
		}
		outs = append(outs, wire.NewTxOut(int64(spec.Value), o0), wire.NewTxOut(0, o1))
		for i := 0; i < spec.Pad%3; i++ {
			outs = append(outs, pad(i))
		}
		b.outIdx = 0
	} else {
		idx := abs(spec.OutIdx) % 3
		for i := 0; i < idx; i++ {
			outs = append(outs, pad(i))
		}
		outs = append(outs, wire.NewTxOut(int64(spec.Value), world.DepositScriptV0(b.key, b.evm)))
		// a second deposit output of the same transaction (another EVM address), right behind the first
		outs = append(outs, wire.NewTxOut(int64(spec.Value), world.DepositScriptV0(b.key, evmOf(spec.EvmSeed+1))))
		b.twinOut = true
		for i := 0; i < spec.Pad%3; i++ {
			outs = append(outs, pad(10+i))
		}
		b.outIdx = uint32(idx)
	}
	var txs []*wire.MsgTx
	for i := 0; i < n; i++ {
		switch {
		case i == b.pos && i == 0:
			b.tx = world.CoinbaseTx(b.height, outs...)
			txs = append(txs, b.tx)
		case i == b.pos && reuse != nil:
			b.tx = reuse.tx
			txs = append(txs, b.tx)
		case i == b.pos:
			b.tx = world.SpendTx(uint64(spec.EvmSeed)*1000+b.height, outs...)
			txs = append(txs, b.tx)
		case i == 0 && reuse == nil:
			// the coinbase pays the same deposit script as well (a second, position-0 deposit of this block)
			var co []*wire.TxOut
			for _, o := range outs {
				co = append(co, wire.NewTxOut(o.Value, o.PkScript))
			}
			txs = append(txs, world.CoinbaseTx(b.height, co...))
			b.coinbasePays = true
		case i == 0:
			txs = append(txs, world.CoinbaseTx(b.height))
		default:
			txs = append(txs, world.FillerTx(b.height, i))
		}
	}
	prev := world.DSha([]byte(fmt.Sprintf("prev-%d", b.height)))
	b.blk = world.NewBtcBlock(b.height, prev, txs)
	return b
}

// depositMsgPart is the honest Deposit record for the block's deposit tx.
func (b *builtDepBlock) deposit() *bitcointypes.Deposit {
	return &bitcointypes.Deposit{
		Version: uint32(b.spec.Version), BlockNumber: b.height, TxIndex: uint32(b.pos),
		NoWitnessTx: b.blk.Raw[b.pos], OutputIndex: b.outIdx, IntermediateProof: b.blk.Tree.Path(b.pos),
		EvmAddress: b.evm, RelayerPubkey: b.key.Public(),
	}
}

// coinbaseDeposit is the Deposit record for the block's coinbase (position 0) when it pays the deposit script too.
func (b *builtDepBlock) coinbaseDeposit() *bitcointypes.Deposit {
	return &bitcointypes.Deposit{
		Version: uint32(b.spec.Version), BlockNumber: b.height, TxIndex: 0,
		NoWitnessTx: b.blk.Raw[0], OutputIndex: b.outIdx, IntermediateProof: b.blk.Tree.Path(0),
		EvmAddress: b.evm, RelayerPubkey: b.key.Public(),
	}
}

// twinDeposit is the Deposit record for the second deposit output of the same transaction.
func (b *builtDepBlock) twinDeposit() *bitcointypes.Deposit {
	d := b.deposit()
	d.OutputIndex = b.outIdx + 1
	d.EvmAddress = evmOf(b.spec.EvmSeed + 1)
	return d
}

func (b *builtDepBlock) header() *bitcointypes.BlockHeader {
	return &bitcointypes.BlockHeader{Height: b.height, Raw: b.blk.Header}
}

// expectedTax is the tax formula of the statement, in integers.
func expectedTax(value uint64, p DepParams) uint64 {
	if p.Rate == 0 || value <= 10_000 {
		return 0
	}
	tax := new(big.Int).Mul(new(big.Int).SetUint64(value/10_000), new(big.Int).SetUint64(p.Rate))
	if p.MaxTax > 0 && tax.Cmp(new(big.Int).SetUint64(p.MaxTax)) > 0 {
		return p.MaxTax
	}
	if !tax.IsUint64() {
		return ^uint64(0)
	}
	return tax.Uint64()
}

// validity evaluates the statement's clauses for the unmutated deposit.
func (b *builtDepBlock) validity(keys []KeySpec, p DepParams) (ok bool, why string) {
	registered := false
	for _, k := range keys {
		if k.key().Public().Equal(b.key.Public()) {
			registered = true
		}
	}
	switch {
	case !registered:
		return false, "key-not-registered"
	case b.spec.Version == 1 && b.key.Schnorr:
		return false, "v1-with-schnorr-key"
	case b.spec.Value < p.MinDep:
		return false, "below-minimum"
	case b.pos == 0 && b.spec.Depth < 100:
		return false, "immature-coinbase"
	case len(b.blk.Raw[b.pos]) <= 64:
		return false, "tx-too-small"
	}
	return true, ""
}

// depFixture is a live chain whose genesis votes the hashes of the given blocks.
type depFixture struct {
	sim    *world.Sim
	keys   []KeySpec
	params DepParams
	blocks []*builtDepBlock
}

func newDepFixture(p DepParams, keys []KeySpec, blocks []DepBlock) (*depFixture, error) {
	return newDepFixtureWith(p, keys, blocks, nil)
}

// newDepFixtureWith lets a property adjust the genesis spec (after the deposit parameters were filled in).
func newDepFixtureWith(p DepParams, keys []KeySpec, blocks []DepBlock, adjust func(*world.GenesisSpec)) (*depFixture, error) {
	spec := world.DefaultSpec(1, 2)
	spec.RelayerParams.ElectingPeriod = 1000 * time.Hour
	spec.BtcParams.DepositTaxRate = p.Rate
	spec.BtcParams.MaxDepositTax = p.MaxTax
	spec.BtcParams.MinDepositAmount = p.MinDep
	spec.BtcParams.DepositMagicPrefix = p.Magic
	spec.BtcKeys = nil
	for _, k := range keys {
		spec.BtcKeys = append(spec.BtcKeys, k.key())
	}
	f := &depFixture{keys: keys, params: p}
	byHeight := map[uint64]*builtDepBlock{}
	for i, bs := range blocks {
		var reuse *builtDepBlock
		if bs.CopyOf > 0 && bs.CopyOf-1 < i && f.blocks[bs.CopyOf-1].pos != 0 {
			reuse = f.blocks[bs.CopyOf-1]
		}
		b := buildDepBlockReusing(bs, keys, p.Magic, reuse)
		b.copyOf = reuse
		if _, dup := byHeight[b.height]; dup {
			return nil, fmt.Errorf("two model blocks at height %d", b.height)
		}
		byHeight[b.height] = b
		f.blocks = append(f.blocks, b)
	}
	spec.BtcTip, spec.BtcQueueNum = depTip, depTip
	spec.BtcHashes = nil
	for h := uint64(depTip); h > depTip-depWindow; h-- {
		if b, ok := byHeight[h]; ok {
			spec.BtcHashes = append(spec.BtcHashes, b.blk.Hash)
		} else {
			spec.BtcHashes = append(spec.BtcHashes, world.DSha([]byte(fmt.Sprintf("filler-hash-%d", h))))
		}
	}
	if adjust != nil {
		adjust(&spec)
	}
	s, err := world.NewSim(spec)
	if err != nil {
		return nil, err
	}
	f.sim = s
	if _, err := s.Step(world.StepOpts{DT: 5 * time.Second, Proposer: -1}); err != nil {
		s.Close()
		return nil, err
	}
	return f, nil
}

func (f *depFixture) close() { f.sim.Close() }

func (f *depFixture) proposer() (world.Account, string) {
	a := world.NewAccount(world.DomRelayer, 0)
	return a, a.Bech32()
}

// DepStep is one deposit attempt: block + one mutation.
type DepStep struct {
	Block int `json:"block"`
	Mut   int `json:"mut"`
	Arg   int `json:"arg"`
}

const (
	mutNone = iota
	mutHeaderOtherHeight
	mutHeaderBitFlip
	mutHeaderMissing
	mutTxByteFlip
	mutTxTrailing
	mutOutIdxShift
	mutVersionSwap
	mutEvmChanged
	mutKeySwap
	mutProofTrunc
	mutProofExtend
	mutProofSwap
	mutProofBitFlip
	mutPosNeighbour
	mutPosAlias
	mutPosRandom
	mutDupInBatch
	mutHeaderDup
	mutBlockNumberOther
	mutDupMirror     // the same deposit twice in one batch, the second under the mirror position of a duplicated last leaf
	mutDupOtherBlock // the same transaction from two voted blocks in one batch
	mutCoinbaseLater // the block's immature coinbase (paying the same script) as a later item of the batch
	mutTwinBadProof  // the transaction's second deposit output, with a damaged proof or an alias position, after the first was verified
	numDepMuts
)

var depMutNames = []string{"none", "header-other-height", "header-bitflip", "header-missing", "tx-byteflip", "tx-trailing-byte", "outidx-shift",
	"version-swap", "evm-changed", "key-swap", "proof-truncated", "proof-extended", "proof-swapped", "proof-bitflip", "pos-neighbour", "pos-alias",
	"pos-random", "dup-in-batch", "header-duplicated", "block-number-other", "dup-mirror-position", "dup-other-block", "immature-coinbase-later-in-batch", "second-output-with-bad-proof"}

type verdict int

const (
	vReject verdict = iota
	vAccept
	vUnspecified
)

// buildAttempt applies the mutation and returns the message and the oracle's verdict.
func (f *depFixture) buildAttempt(st DepStep) (*bitcointypes.MsgNewDeposits, *builtDepBlock, verdict, string) {
	b := f.blocks[abs(st.Block)%len(f.blocks)]
	_, prop := f.proposer()
	d := b.deposit()
	msg := &bitcointypes.MsgNewDeposits{Proposer: prop, BlockHeaders: []*bitcointypes.BlockHeader{b.header()}, Deposits: []*bitcointypes.Deposit{d}}
	ok, why := b.validity(f.keys, f.params)
	v := vReject
	if ok {
		v = vAccept
	}
	reject := func(r string) {
		if v != vReject {
			v, why = vReject, r
		}
	}
	arg := abs(st.Arg)
	depth := b.blk.Tree.Depth()
	other := f.blocks[(abs(st.Block)+1)%len(f.blocks)]
	switch st.Mut % numDepMuts {
	case mutNone:
	case mutHeaderOtherHeight:
		if other != b {
			msg.BlockHeaders[0] = &bitcointypes.BlockHeader{Height: b.height, Raw: other.blk.Header}
			reject("header-of-another-block")
		}
	case mutHeaderBitFlip:
		raw := append([]byte{}, b.blk.Header...)
		bit := arg % (80 * 8)
		raw[bit/8] ^= 1 << uint(bit%8)
		msg.BlockHeaders[0] = &bitcointypes.BlockHeader{Height: b.height, Raw: raw}
		reject("header-bitflip")
	case mutHeaderMissing:
		msg.BlockHeaders[0] = &bitcointypes.BlockHeader{Height: b.height + 1 + uint64(arg%3), Raw: b.blk.Header}
		reject("header-missing")
	case mutTxByteFlip:
		raw := append([]byte{}, d.NoWitnessTx...)
		i := arg % len(raw)
		raw[i] ^= 1 << uint(arg%8)
		d.NoWitnessTx = raw
		reject("tx-byteflip")
	case mutTxTrailing:
		d.NoWitnessTx = append(append([]byte{}, d.NoWitnessTx...), byte(arg))
		reject("tx-trailing-byte")
	case mutOutIdxShift:
		d.OutputIndex = d.OutputIndex + 1 + uint32(arg%2)
		reject("wrong-output-index")
	case mutVersionSwap:
		d.Version = 1 - d.Version
		reject("version-swapped")
	case mutEvmChanged:
		e := append([]byte{}, d.EvmAddress...)
		e[arg%20] ^= 1 << uint(arg%8)
		d.EvmAddress = e
		reject("evm-address-changed")
	case mutKeySwap:
		alt := world.NewBtcKey(8000+arg%50, b.key.Schnorr)
		if len(f.keys) > 1 {
			for _, k := range f.keys {
				if !k.key().Public().Equal(b.key.Public()) && k.Schnorr == b.key.Schnorr {
					alt = k.key()
				}
			}
		}
		d.RelayerPubkey = alt.Public()
		reject("key-swapped")
	case mutProofTrunc:
		if depth >= 1 {
			d.IntermediateProof = d.IntermediateProof[:32*(arg%depth)]
			reject("proof-truncated")
		}
	case mutProofExtend:
		d.IntermediateProof = append(append([]byte{}, d.IntermediateProof...), world.DSha([]byte{byte(arg)})...)
		reject("proof-extended")
	case mutProofSwap:
		if depth >= 2 {
			p := append([]byte{}, d.IntermediateProof...)
			i := arg % depth
			j := (i + 1) % depth
			if string(p[i*32:(i+1)*32]) != string(p[j*32:(j+1)*32]) {
				tmp := append([]byte{}, p[i*32:(i+1)*32]...)
				copy(p[i*32:(i+1)*32], p[j*32:(j+1)*32])
				copy(p[j*32:(j+1)*32], tmp)
				d.IntermediateProof = p
				reject("proof-permuted")
			}
		}
	case mutProofBitFlip:
		if depth >= 1 {
			p := append([]byte{}, d.IntermediateProof...)
			bit := arg % (len(p) * 8)
			p[bit/8] ^= 1 << uint(bit%8)
			d.IntermediateProof = p
			reject("proof-bitflip")
		}
	case mutPosNeighbour:
		q := uint32(b.pos) + 1
		if arg%2 == 1 && b.pos > 0 {
			q = uint32(b.pos) - 1
		}
		d.TxIndex = q
		if b.blk.Tree.Occupant(uint64(q)) == b.pos {
			// the mirror position of a duplicated last node: the statement leaves it open,
			// except that it must not be used to dodge the coinbase rule
			if v == vAccept {
				v, why = vUnspecified, "mirror-position"
			}
		} else {
			reject("wrong-position")
		}
	case mutPosAlias:
		if depth < 31 {
			d.TxIndex = uint32(b.pos) + uint32(1+arg%5)<<uint(depth)
			reject("alias-position")
			if b.pos == 0 {
				why = "coinbase-under-alias-position"
			}
		}
	case mutPosRandom:
		q := uint32(arg) * 2654435761
		if q != uint32(b.pos) {
			d.TxIndex = q
			if b.blk.Tree.Occupant(uint64(q)) == b.pos && v == vAccept {
				v, why = vUnspecified, "mirror-position"
			} else {
				reject("wrong-position")
			}
		}
	case mutDupInBatch:
		msg.Deposits = append(msg.Deposits, b.deposit())
		msg.BlockHeaders = append(msg.BlockHeaders[:1:1], msg.BlockHeaders[1:]...)
		reject("duplicate-in-batch")
	case mutHeaderDup:
		msg.Deposits = append(msg.Deposits, b.deposit()) // keeps headers <= deposits
		msg.BlockHeaders = append(msg.BlockHeaders, b.header())
		reject("duplicate-header-height")
	case mutDupMirror:
		second := b.deposit()
		n := b.blk.Tree.N()
		if b.pos == n-1 && n%2 == 1 && n > 1 {
			second.TxIndex = uint32(b.pos + 1) // same branch, other claimed position
		}
		msg.Deposits = append(msg.Deposits, second)
		reject("duplicate-in-batch")
	case mutDupOtherBlock:
		for _, o := range f.blocks {
			if o.copyOf == b || b.copyOf == o {
				msg.Deposits = append(msg.Deposits, o.deposit())
				msg.BlockHeaders = append(msg.BlockHeaders, o.header())
				reject("same-output-from-two-blocks")
				break
			}
		}
	case mutCoinbaseLater:
		// position 0 is the coinbase wherever it stands in a batch: with fewer than 100 voted blocks above it, the
		// batch must fail (a mature coinbase would be a second valid deposit; that case is not expressed here)
		if b.coinbasePays && b.spec.Depth < 100 {
			msg.Deposits = append(msg.Deposits, b.coinbaseDeposit())
			reject("immature-coinbase")
		}
	case mutTwinBadProof:
		// every output needs its own valid inclusion proof, also when another output of the same transaction has just
		// been credited
		if b.twinOut && depth >= 1 {
			d2 := b.twinDeposit()
			if arg%2 == 0 {
				p := append([]byte{}, d2.IntermediateProof...)
				bit := arg % (len(p) * 8)
				p[bit/8] ^= 1 << uint(bit%8)
				d2.IntermediateProof = p
			} else if depth < 31 {
				d2.TxIndex = uint32(b.pos) + uint32(1+arg%5)<<uint(depth)
			}
			msg.Deposits = append(msg.Deposits, d2)
			reject("second-output-with-bad-proof")
		}
	case mutBlockNumberOther:
		if other != b {
			d.BlockNumber = other.height
			msg.BlockHeaders[0] = other.header()
			reject("claimed-in-another-block")
		}
	}
	return msg, b, v, why
}

// decodeDeposits extracts the deposit system transactions from raw system txs.
func decodeDeposits(raws [][]byte) ([]*goattypes.DepositTx, error) {
	var out []*goattypes.DepositTx
	for _, r := range raws {
		st, err := world.DecodeSysTx(r)
		if err != nil {
			return nil, err
		}
		if d, ok := st.Tx.(*goattypes.DepositTx); ok {
			out = append(out, d)
		}
	}
	return out, nil
}

var satoshi = big.NewInt(1e10)

// checkReceipt compares a deposit system transaction with the statement's value identity.
func checkReceipt(d *goattypes.DepositTx, b *builtDepBlock, p DepParams) *Failure {
	txid := world.DSha(b.blk.Raw[b.pos])
	value := b.spec.Value
	wantTax := expectedTax(value, p)
	amt := new(big.Int).Div(d.Amount, satoshi)
	tax := new(big.Int).Div(d.Tax, satoshi)
	if string(d.Txid[:]) != string(txid) || d.TxOut != b.outIdx || string(d.Target[:]) != string(b.evm) {
		return failf("receipt-identity", "receipt-wrong-identity", "credited %x:%d -> %x, expected %x:%d -> %x", d.Txid, d.TxOut, d.Target, txid, b.outIdx, b.evm)
	}
	if new(big.Int).Add(amt, tax).Cmp(new(big.Int).SetUint64(value)) != 0 {
		return failf("amount+tax=value", "value-not-conserved", "amount %s + tax %s != output value %d", amt, tax, value)
	}
	if tax.Cmp(new(big.Int).SetUint64(wantTax)) != 0 {
		return failf("tax-formula", "tax-formula", "tax %s, formula gives %d (value %d rate %d cap %d)", tax, wantTax, value, p.Rate, p.MaxTax)
	}
	if tax.Cmp(new(big.Int).SetUint64(value)) >= 0 || amt.Sign() <= 0 {
		return failf("tax<value", "tax-reaches-value", "value %d credited as amount %s with tax %s (rate %d cap %d)", value, amt, tax, p.Rate, p.MaxTax)
	}
	return nil
}

var _ = relayertypes.VOTER_STATUS_ACTIVATED
