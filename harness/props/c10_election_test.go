package props

// C10, third slice: "the current relayer proposer" right after an election changed it.

import (
	"fmt"
	"testing"
	"time"

	abci "github.com/cometbft/cometbft/abci/types"
	bitcointypes "github.com/goatnetwork/goat/x/bitcoin/types"
	"pgregory.net/rapid"
	"verif/harness/world"
)

type ElectRound struct {
	PreTx    bool `json:"pre_tx"`  // the outgoing proposer has a transaction in the block that holds the election
	PreChk   bool `json:"pre_chk"` // ... and one in the mempool before it
	Mode     int  `json:"mode"`    // 0 check, 1 process, 2 finalize (sequence advance)
	OldFirst bool `json:"old_first"`
	Gap      int  `json:"gap"` // plain blocks between the election and the probes (0..2)
}

type ElectCase struct {
	N      int          `json:"n"`
	Rounds []ElectRound `json:"rounds"`
}

func runElectCase(c ElectCase) Outcome {
	o := Outcome{Classes: []string{fmt.Sprintf("voters=%d", c.N)}}
	f, err := newVoteFixtureWith(c.N, 0, 0, false, 20*time.Second, time.Hour)
	if err != nil {
		o.Fail = failf("fixture", "fixture-failed", "%v", err)
		return o
	}
	defer func() { f.close() }()
	sim := f.sim
	probe := func(acc world.Account, proposerField string, id uint64) sdkMsgTx {
		return sdkMsgTx{acc: acc, msg: &bitcointypes.MsgApproveCancellation{Proposer: proposerField, Id: []uint64{id}}}
	}
	for ri, r := range c.Rounds {
		rv0, err := sim.Node.RelayerView()
		if err != nil {
			o.Fail = failf("query", "query-failed", "%v", err)
			return o
		}
		old := f.memberAcc(rv0.Proposer)
		var pooled []byte
		if r.PreChk {
			raw, _ := sim.Node.Tx(old, 0, world.TxOpts{}, probe(old, rv0.Proposer, 800_000+uint64(ri)).msg)
			pooled = raw
			if resp, err := sim.Node.CheckTx(raw, false); err != nil || resp.Code != 0 {
				o.Fail = failf("admission", "admissible-transaction-refused/check", "round %d: the current proposer's transaction was refused before the election: %v %v", ri, resp, err)
				return o
			}
		}
		var txs [][]byte
		if r.PreTx {
			raw, _ := sim.Node.Tx(old, 0, world.TxOpts{}, probe(old, rv0.Proposer, 810_000+uint64(ri)).msg)
			txs = append(txs, raw)
		}
		// the electing period (20 s) has passed at this block: its end-of-block logic elects
		if _, err := sim.Step(world.StepOpts{DT: 21 * time.Second, Proposer: -1, Txs: txs}); err != nil {
			o.Fail = failf("block-processing", "block-failed", "%v", err)
			return o
		}
		for g := 0; g < r.Gap%3; g++ {
			if _, err := sim.Step(world.StepOpts{DT: time.Second, Proposer: -1}); err != nil {
				o.Fail = failf("block-processing", "block-failed", "%v", err)
				return o
			}
		}
		rv1, err := sim.Node.RelayerView()
		if err != nil {
			o.Fail = failf("query", "query-failed", "%v", err)
			return o
		}
		o.Evals++
		if rv1.Epoch == rv0.Epoch {
			o.Classes = append(o.Classes, "no-election")
			continue
		}
		if rv1.Proposer == rv0.Proposer {
			o.Classes = append(o.Classes, "proposer-unchanged")
			continue
		}
		o.NonTrivial = true
		if pooled != nil {
			// the transaction the replaced proposer had in the mempool is re-checked after the block: it must be evicted
			resp, err := sim.Node.CheckTx(pooled, true)
			if err != nil {
				o.Fail = failf("no-crash", "checktx-failed", "%v", err)
				return o
			}
			if resp.Code == 0 {
				o.Fail = failf("admission", "replaced-proposer-admitted-after-election", "round %d (proposer %s -> %s): the replaced proposer's pooled transaction passes the re-check after the election", ri, rv0.Proposer, rv1.Proposer)
				return o
			}
			o.Classes = append(o.Classes, "pooled-tx-rechecked")
		}
		cur := f.memberAcc(rv1.Proposer)
		type pr struct {
			who  string
			acc  world.Account
			fld  string
			want bool
		}
		probes := []pr{{"new-proposer", cur, rv1.Proposer, true}, {"replaced-proposer", old, rv0.Proposer, false}, {"replaced-proposer-naming-the-new-one", old, rv1.Proposer, false}}
		if r.OldFirst {
			probes = []pr{probes[1], probes[2], probes[0]}
		}
		mode := abs(r.Mode) % 3
		o.Classes = append(o.Classes, fmt.Sprintf("after-election/%s/gap=%d", []string{"check", "process", "finalize"}[mode], r.Gap%3))
		for pi, p := range probes {
			raw, err := sim.Node.Tx(p.acc, 0, world.TxOpts{}, probe(p.acc, p.fld, 820_000+uint64(ri*10+pi)).msg)
			if err != nil {
				o.Fail = failf("fixture", "tx-build-failed", "%v", err)
				return o
			}
			admitted := false
			switch mode {
			case 0:
				resp, err := sim.Node.CheckTx(raw, false)
				if err != nil {
					o.Fail = failf("no-crash", "checktx-failed", "%v", err)
					return o
				}
				admitted = resp.Code == 0
			case 1:
				blk, eth, err := sim.Begin(world.StepOpts{DT: time.Second, Proposer: -1})
				if err != nil {
					o.Fail = failf("fixture", "begin-failed", "%v", err)
					return o
				}
				pp, err := sim.Node.Process(blk.ProcessReq(append(eth, raw)))
				if err != nil {
					o.Fail = failf("no-crash", "process-failed", "%v", err)
					return o
				}
				admitted = pp.Status == abci.ResponseProcessProposal_ACCEPT
			default:
				_, seq0, _ := sim.Node.AccountInfo(p.acc.Addr())
				if _, err := sim.Step(world.StepOpts{DT: time.Second, Proposer: -1, Txs: [][]byte{raw}}); err != nil {
					o.Fail = failf("block-processing", "block-failed", "%v", err)
					return o
				}
				_, seq1, _ := sim.Node.AccountInfo(p.acc.Addr())
				admitted = seq1 == seq0+1
			}
			if admitted != p.want {
				sig := "replaced-proposer-admitted-after-election"
				if p.want {
					sig = "new-proposer-refused-after-election"
				}
				o.Fail = failf("admission", sig, "round %d (epoch %d -> %d, proposer %s -> %s, %d plain blocks later, mode %s): transaction of the %s admitted=%v, the statement says %v",
					ri, rv0.Epoch, rv1.Epoch, rv0.Proposer, rv1.Proposer, r.Gap%3, []string{"check", "process", "finalize"}[mode], p.who, admitted, p.want)
				return o
			}
		}
		// a fresh mempool for the next round (the application mempool lives in the process)
		n2, err := sim.Node.Restart()
		if err != nil {
			o.Fail = failf("restart", "restart-failed", "%v", err)
			return o
		}
		sim.Node = n2
		if _, err := sim.Step(world.StepOpts{DT: time.Second, Proposer: -1}); err != nil {
			o.Fail = failf("block-processing", "block-failed", "%v", err)
			return o
		}
	}
	return o
}

type sdkMsgTx struct {
	acc world.Account
	msg *bitcointypes.MsgApproveCancellation
}

func TestC10_AfterElection(t *testing.T) {
	RunProp(t, Prop[ElectCase]{
		ID: "C10", Name: "after-election", Quick: 160, Thor: 4000,
		Gen: func(t *rapid.T) ElectCase {
			c := ElectCase{N: rapid.IntRange(1, 4).Draw(t, "n")}
			for i, n := 0, rapid.IntRange(2, 8).Draw(t, "rounds"); i < n; i++ {
				c.Rounds = append(c.Rounds, ElectRound{PreTx: rapid.Bool().Draw(t, "preTx"), PreChk: rapid.IntRange(0, 2).Draw(t, "preChk") == 0, Mode: rapid.SampledFrom([]int{0, 0, 1, 2}).Draw(t, "mode"),
					OldFirst: rapid.Bool().Draw(t, "oldFirst"), Gap: rapid.SampledFrom([]int{0, 0, 0, 1, 2}).Draw(t, "gap")})
			}
			return c
		},
		Run:  runElectCase,
		Rule: "relayer groups of 1-4 voters with a 20 s electing period; 2-8 rounds: the outgoing proposer optionally has a transaction in the mempool and/or in the block whose end-of-block logic holds the election; directly after that block (or 1-2 plain blocks later) a bridge message signed by the newly elected proposer must be admitted and one signed by the replaced proposer (naming itself or the new proposer) must be refused, through CheckTx, ProcessProposal or FinalizeBlock (account sequence advance), and the re-check of the transaction the replaced proposer had in the mempool must evict it; non-trivial = an election that changed the proposer; evaluations count rounds",
	})
}
