package props

// C06 — consensus-to-execution hand-over is exactly-once, ordered and gap-free.

import (
	"bytes"
	"fmt"
	"math/big"
	"strings"
	"testing"
	"time"

	abci "github.com/cometbft/cometbft/abci/types"
	"github.com/ethereum/go-ethereum/common"
	"github.com/ethereum/go-ethereum/core/types/goattypes"
	bitcointypes "github.com/goatnetwork/goat/x/bitcoin/types"
	goatmodtypes "github.com/goatnetwork/goat/x/goat/types"
	"pgregory.net/rapid"
	"verif/harness/world"
)

// ---- data-only case ----

type HoRound struct {
	DT           int   `json:"dt"`
	Hashes       int   `json:"hashes"`         // number of new block hashes voted in this round (0..16)
	HashStartOff int   `json:"hash_start_off"` // 0 = tip+1; otherwise a wrong start height (must be rejected)
	Deposits     []int `json:"deposits,omitempty"`
	BadWithdraws int   `json:"bad_withdraws"` // withdrawals with undecodable addresses (refunded at creation)
	Withdraws    int   `json:"withdraws"`     // valid withdrawals
	Cancels      []int `json:"cancels,omitempty"`
	Approves     []int `json:"approves,omitempty"`
	Claims       int   `json:"claims"`
	Unlocks      int   `json:"unlocks"`
	// ExitUnlocks: unlock requests aimed at the second validator, which holds exactly the threshold: the first one
	// makes it exit, all of them mature after the (longer) exit delay
	ExitUnlocks int `json:"exit_unlocks,omitempty"`
	// StaleCancels: cancel requests for withdrawals that already reached an end (refunded at creation or cancelled):
	// they must have no effect. StaleApprove > 0: a cancellation approval for such a withdrawal, which must fail.
	StaleCancels []int `json:"stale_cancels,omitempty"`
	StaleApprove int   `json:"stale_approve,omitempty"`
	// DupDeposit > 0: the deposit batch of this round lists one of its outputs twice and must fail as a whole
	DupDeposit int `json:"dup_deposit,omitempty"`
	// LostRound (harness-built shape): before the decided block, another well-formed proposal for the same height passes
	// ProcessProposal but that round is never decided; nothing of it may reach the execution layer as head
	LostRound bool `json:"lost_round,omitempty"`
	Shape     int  `json:"shape"` // see hoShapes
	Mut       int  `json:"mut"`
	Repeat    int  `json:"repeat"`
	Restart   bool `json:"restart"`
}

var hoShapes = []string{"real-prepare", "harness-built", "prepared-not-finalised", "mutated-system-section", "no-eth-message", "failing-eth-message"}

type HoCase struct {
	Params DepParams  `json:"params"`
	Keys   []KeySpec  `json:"keys"`
	Blocks []DepBlock `json:"blocks"`
	Rounds []HoRound  `json:"rounds"`
	// ExitMode: 0 = the default delays (unlock 20s, exit 60s); k > 0 = exit delay is the unlock delay plus k-1 seconds
	ExitMode int `json:"exit_mode,omitempty"`
}

// ---- model ----

type hoItem struct {
	key string
}

type hoModel struct {
	hashes, deposits, paid, rejected, rewards, unlocks []string
	bridgeNonce, lockNonce                             uint64
	pendingUnlocks                                     []hoUnlock
	unlockSeq                                          int
	delivered                                          map[string]int
	owed                                               map[string]int
	deliveredOrder                                     map[string][]string
	owedOrder                                          map[string][]string
	voted                                              map[uint64][]byte
	tip                                                uint64
}

type hoUnlock struct {
	key      string
	maturity time.Time
	order    int
}

type hoExp struct {
	module goattypes.Module
	nonce  uint64
	key    string
}

func (m *hoModel) owe(kind, key string) {
	m.owed[key]++
	m.owedOrder[kind] = append(m.owedOrder[kind], key)
}

// expected computes the system transactions due in the next execution block.
func (m *hoModel) expected() []hoExp {
	var out []hoExp
	bn, ln := m.bridgeNonce, m.lockNonce
	take := func(q []string, n int) []string {
		if len(q) < n {
			n = len(q)
		}
		return q[:n]
	}
	for _, k := range take(m.hashes, 1) {
		out = append(out, hoExp{goattypes.BirdgeModule, bn, k})
		bn++
	}
	for _, k := range take(m.deposits, 8) {
		out = append(out, hoExp{goattypes.BirdgeModule, bn, k})
		bn++
	}
	p := take(m.paid, 8)
	for _, k := range p {
		out = append(out, hoExp{goattypes.BirdgeModule, bn, k})
		bn++
	}
	for _, k := range take(m.rejected, 8-len(p)) {
		out = append(out, hoExp{goattypes.BirdgeModule, bn, k})
		bn++
	}
	for _, k := range take(m.rewards, 16) {
		out = append(out, hoExp{goattypes.LockingModule, ln, k})
		ln++
	}
	for _, k := range take(m.unlocks, 16) {
		out = append(out, hoExp{goattypes.LockingModule, ln, k})
		ln++
	}
	return out
}

// consume pops what expected() listed.
func (m *hoModel) consume() {
	pop := func(q *[]string, n int, kind string) int {
		if len(*q) < n {
			n = len(*q)
		}
		for _, k := range (*q)[:n] {
			m.delivered[k]++
			m.deliveredOrder[kind] = append(m.deliveredOrder[kind], k)
		}
		*q = (*q)[n:]
		return n
	}
	m.bridgeNonce += uint64(pop(&m.hashes, 1, "hash"))
	m.bridgeNonce += uint64(pop(&m.deposits, 8, "deposit"))
	np := pop(&m.paid, 8, "paid")
	m.bridgeNonce += uint64(np)
	m.bridgeNonce += uint64(pop(&m.rejected, 8-np, "rejected"))
	m.lockNonce += uint64(pop(&m.rewards, 16, "reward"))
	m.lockNonce += uint64(pop(&m.unlocks, 16, "unlock"))
}

func sysKey(st world.SysTx) string {
	switch t := st.Tx.(type) {
	case *goattypes.NewBtcBlockTx:
		return fmt.Sprintf("hash:%x", t.Hash[:])
	case *goattypes.DepositTx:
		return fmt.Sprintf("dep:%x:%d:%x:%s:%s", t.Txid[:], t.TxOut, t.Target[:], t.Amount, t.Tax)
	case *goattypes.PaidTx:
		return fmt.Sprintf("paid:%s", t.Id)
	case *goattypes.Cancel2Tx:
		return fmt.Sprintf("rej:%s", t.Id)
	case *goattypes.DistributeRewardTx:
		return fmt.Sprintf("reward:%d:%x", t.Id, t.Recipient[:])
	case *goattypes.CompleteUnlockTx:
		return fmt.Sprintf("unlock:%d:%x:%s", t.Id, t.Recipient[:], t.Amount)
	}
	return "unknown"
}

func depKeyOf(b *builtDepBlock, p DepParams) string {
	tax := expectedTax(b.spec.Value, p)
	amt := new(big.Int).Mul(new(big.Int).SetUint64(b.spec.Value-tax), satoshi)
	taxw := new(big.Int).Mul(new(big.Int).SetUint64(tax), satoshi)
	return fmt.Sprintf("dep:%x:%d:%x:%s:%s", world.DSha(b.blk.Raw[b.pos]), b.outIdx, b.evm, amt, taxw)
}

type hoWorld struct {
	f            *depFixture
	vf           *voteFixture
	m            *hoModel
	credited     map[int]bool
	creditedKeys map[string]bool
	nextWd       uint64
	nextID       uint64
	wdStatus     map[uint64]string
	wdOrder      []uint64
	nt           bool
	prepares     int
	exitUnlocks  int
	ended        []uint64 // withdrawals that reached an end: refunded at creation or cancellation approved
	staleCancels int
}

func hoExitValidator() world.Account { return world.NewAccount(world.DomValidator, 5) }

func compareSys(got [][]byte, want []hoExp, where string) *Failure {
	if len(got) != len(want) {
		var g []string
		for _, r := range got {
			if st, err := world.DecodeSysTx(r); err == nil {
				g = append(g, sysKey(st))
			}
		}
		return failf("due-system-txs", "system-tx-count-mismatch", "%s: %d system txs, model expects %d (got %v, want %v)", where, len(got), len(want), g, want)
	}
	for i, raw := range got {
		st, err := world.DecodeSysTx(raw)
		if err != nil {
			return failf("due-system-txs", "undecodable-system-tx", "%s: %v", where, err)
		}
		if st.Module != want[i].module || st.Nonce != want[i].nonce || sysKey(st) != want[i].key {
			sig := "system-tx-mismatch"
			if sysKey(st) == want[i].key && st.Nonce != want[i].nonce {
				sig = "nonce-gap-or-reuse"
			}
			return failf("due-system-txs", sig, "%s: position %d is %s (module %d nonce %d), model expects %s (module %d nonce %d)", where, i, sysKey(st), st.Module, st.Nonce, want[i].key, want[i].module, want[i].nonce)
		}
	}
	return nil
}

func (w *hoWorld) round(ri int, r HoRound, o *Outcome) *Failure {
	f, m := w.f, w.m
	sim := f.sim
	rv, err := sim.Node.RelayerView()
	if err != nil {
		return failf("query", "query-failed", "%v", err)
	}
	prop := w.vf.memberAcc(rv.Proposer)
	unlockDur := sim.Spec.LockingParams.UnlockDuration
	// ---- relayer transactions of this round ----
	var txs [][]byte
	var onOK []func()
	mustFail := map[int]string{} // tx index -> what it would mean if it succeeded (other than a bad hash batch)
	bump := uint64(0)
	if r.Hashes > 0 || r.HashStartOff != 0 {
		start := m.tip + 1 + uint64(r.HashStartOff)
		body := voteBody{kind: kindHashes, start: start}
		for i := 0; i < r.Hashes && i < 16; i++ {
			body.hashes = append(body.hashes, world.DSha([]byte(fmt.Sprintf("ho-hash-%d-%d", ri, i))))
		}
		msg, err := w.vf.honestMsg(body, rv)
		if err != nil {
			return failf("fixture", "vote-build-failed", "%v", err)
		}
		raw, err := sim.Node.Tx(prop, bump, world.TxOpts{}, msg)
		if err != nil {
			return failf("fixture", "tx-build-failed", "%v", err)
		}
		wantOK := r.HashStartOff == 0
		hs := body.hashes
		idx := len(txs)
		txs = append(txs, raw)
		onOK = append(onOK, func() {
			for _, h := range hs {
				m.tip++
				m.voted[m.tip] = h
				k := fmt.Sprintf("hash:%x", h)
				m.hashes = append(m.hashes, k)
				m.owe("hash", k)
			}
		})
		_ = idx
		if wantOK {
			bump++
		} else {
			onOK[len(onOK)-1] = nil // must be rejected: start is not tip+1
		}
	}
	if len(r.Deposits) > 0 && (len(txs) == 0 || onOK[len(onOK)-1] != nil) {
		msg := &bitcointypes.MsgNewDeposits{Proposer: rv.Proposer}
		var keys []string
		seen := map[int]bool{}
		seenKey := map[string]bool{}
		hdr := map[uint64]bool{}
		for _, d := range r.Deposits {
			bi := abs(d) % len(f.blocks)
			b := f.blocks[bi]
			outKey := fmt.Sprintf("%x:%d", world.DSha(b.blk.Raw[b.pos]), b.outIdx) // the same transaction may sit in two model blocks
			if w.creditedKeys[outKey] || seenKey[outKey] || seen[bi] || len(msg.Deposits) >= 16 {
				continue
			}
			if ok, _ := b.validity(f.keys, f.params); !ok {
				continue
			}
			seen[bi] = true
			seenKey[outKey] = true
			msg.Deposits = append(msg.Deposits, b.deposit())
			if !hdr[b.height] {
				hdr[b.height] = true
				msg.BlockHeaders = append(msg.BlockHeaders, b.header())
			}
			keys = append(keys, depKeyOf(b, f.params))
		}
		if r.DupDeposit > 0 && len(msg.Deposits) > 0 && len(msg.Deposits) < 16 {
			// the same output twice in one batch: the whole batch must fail, nothing may be owed for it
			msg.Deposits = append(msg.Deposits, msg.Deposits[(r.DupDeposit-1)%len(msg.Deposits)])
			raw, err := sim.Node.Tx(prop, bump, world.TxOpts{}, msg)
			if err != nil {
				return failf("fixture", "tx-build-failed", "%v", err)
			}
			txs = append(txs, raw)
			onOK = append(onOK, nil)
			mustFail[len(txs)-1] = "a deposit batch listing the same Bitcoin output twice was accepted"
		} else if len(msg.Deposits) > 0 {
			raw, err := sim.Node.Tx(prop, bump, world.TxOpts{}, msg)
			if err != nil {
				return failf("fixture", "tx-build-failed", "%v", err)
			}
			bump++
			txs = append(txs, raw)
			onOK = append(onOK, func() {
				for bi := range seen {
					w.credited[bi] = true
				}
				for k := range seenKey {
					w.creditedKeys[k] = true
				}
				for _, k := range keys {
					m.deposits = append(m.deposits, k)
					m.owe("deposit", k)
				}
			})
		}
	}
	if len(r.Approves) > 0 && (len(txs) == 0 || onOK[len(onOK)-1] != nil) {
		var ids []uint64
		seen := map[uint64]bool{}
		for _, a := range r.Approves {
			var cand []uint64
			for _, id := range w.wdOrder {
				if w.wdStatus[id] == "canceling" && !seen[id] {
					cand = append(cand, id)
				}
			}
			if len(cand) == 0 {
				break
			}
			id := cand[abs(a)%len(cand)]
			seen[id] = true
			ids = append(ids, id)
		}
		if len(ids) > 0 {
			raw, err := sim.Node.Tx(prop, bump, world.TxOpts{}, &bitcointypes.MsgApproveCancellation{Proposer: rv.Proposer, Id: ids})
			if err != nil {
				return failf("fixture", "tx-build-failed", "%v", err)
			}
			bump++
			txs = append(txs, raw)
			onOK = append(onOK, func() {
				for _, id := range ids {
					w.wdStatus[id] = "canceled"
					k := fmt.Sprintf("rej:%d", id)
					m.rejected = append(m.rejected, k)
					m.owe("rejected", k)
					w.ended = append(w.ended, id)
				}
			})
		}
	}
	if r.StaleApprove > 0 && len(w.ended) > 0 && (len(txs) == 0 || onOK[len(onOK)-1] != nil) {
		id := w.ended[(r.StaleApprove-1)%len(w.ended)]
		raw, err := sim.Node.Tx(prop, bump, world.TxOpts{}, &bitcointypes.MsgApproveCancellation{Proposer: rv.Proposer, Id: []uint64{id}})
		if err != nil {
			return failf("fixture", "tx-build-failed", "%v", err)
		}
		txs = append(txs, raw)
		onOK = append(onOK, nil)
		mustFail[len(txs)-1] = fmt.Sprintf("cancellation of withdrawal %d, which was already refunded, approved again", id)
	}
	// ---- execution-layer requests ----
	br := goattypes.BridgeRequests{}
	lr := goattypes.LockingRequests{}
	var reqOK []func()
	for i := 0; i < r.BadWithdraws; i++ {
		id := w.nextWd
		w.nextWd++
		br.Withdraws = append(br.Withdraws, &goattypes.WithdrawalRequest{Id: id, Amount: 5000, TxPrice: 2, Address: fmt.Sprintf("garbage-%d", id)})
		reqOK = append(reqOK, func() {
			k := fmt.Sprintf("rej:%d", id)
			m.rejected = append(m.rejected, k)
			m.owe("rejected", k)
			w.ended = append(w.ended, id)
		})
	}
	for _, c := range r.StaleCancels {
		if len(w.ended) == 0 {
			break
		}
		// no effect: the withdrawal is not pending any more
		br.Cancel1s = append(br.Cancel1s, &goattypes.Cancel1Request{Id: w.ended[abs(c)%len(w.ended)]})
		w.staleCancels++
	}
	for i := 0; i < r.Withdraws; i++ {
		id := w.nextWd
		w.nextWd++
		addr, _, _ := wdAddress(0, id)
		br.Withdraws = append(br.Withdraws, &goattypes.WithdrawalRequest{Id: id, Amount: 50_000, TxPrice: 2, Address: addr})
		reqOK = append(reqOK, func() { w.wdStatus[id] = "pending"; w.wdOrder = append(w.wdOrder, id) })
	}
	for _, c := range r.Cancels {
		var cand []uint64
		for _, id := range w.wdOrder {
			if w.wdStatus[id] == "pending" {
				cand = append(cand, id)
			}
		}
		if len(cand) == 0 {
			break
		}
		id := cand[abs(c)%len(cand)]
		br.Cancel1s = append(br.Cancel1s, &goattypes.Cancel1Request{Id: id})
		reqOK = append(reqOK, func() {
			if w.wdStatus[id] == "pending" {
				w.wdStatus[id] = "canceling"
			}
		})
	}
	val := world.NewAccount(world.DomValidator, 0)
	for i := 0; i < r.Claims; i++ {
		id := w.nextID
		w.nextID++
		rcpt := common.BytesToAddress([]byte(fmt.Sprintf("claim-%d", id)))
		lr.Claims = append(lr.Claims, &goattypes.ClaimRequest{Id: id, Validator: val.EthAddr(), Recipient: rcpt})
		reqOK = append(reqOK, func() {
			k := fmt.Sprintf("reward:%d:%x", id, rcpt[:])
			m.rewards = append(m.rewards, k)
			m.owe("reward", k)
		})
	}
	// this block's time is needed for the maturities
	shape := abs(r.Shape) % len(hoShapes)
	o.Classes = append(o.Classes, hoShapes[shape])
	plan := world.BuildPlan{}
	blockTimeHolder := new(time.Time)
	for i := 0; i < r.Unlocks; i++ {
		id := w.nextID
		w.nextID++
		rcpt := common.BytesToAddress([]byte(fmt.Sprintf("rcpt-%d", id)))
		lr.Unlocks = append(lr.Unlocks, &goattypes.UnlockRequest{Id: id, Validator: val.EthAddr(), Recipient: rcpt, Token: common.Address{}, Amount: big.NewInt(1000)})
		reqOK = append(reqOK, func() {
			m.unlockSeq++
			k := fmt.Sprintf("unlock:%d:%x:1000", id, rcpt[:])
			m.pendingUnlocks = append(m.pendingUnlocks, hoUnlock{key: k, maturity: blockTimeHolder.Add(unlockDur), order: m.unlockSeq})
			m.owe("unlock", k)
		})
	}
	exitDur := sim.Spec.LockingParams.ExitingDuration
	for i := 0; i < r.ExitUnlocks; i++ {
		id := w.nextID
		w.nextID++
		rcpt := common.BytesToAddress([]byte(fmt.Sprintf("rcpt-%d", id)))
		lr.Unlocks = append(lr.Unlocks, &goattypes.UnlockRequest{Id: id, Validator: hoExitValidator().EthAddr(), Recipient: rcpt, Token: common.Address{}, Amount: big.NewInt(1000)})
		reqOK = append(reqOK, func() {
			m.unlockSeq++
			k := fmt.Sprintf("unlock:%d:%x:1000", id, rcpt[:])
			m.pendingUnlocks = append(m.pendingUnlocks, hoUnlock{key: k, maturity: blockTimeHolder.Add(exitDur), order: m.unlockSeq})
			m.owe("unlock", k)
			w.exitUnlocks++
		})
	}
	plan.Requests = append(br.Encode(), lr.Encode()...)
	if shape == 5 {
		// a request that makes the execution-block message fail: lock for a validator that does not exist
		bad := goattypes.LockingRequests{Locks: []*goattypes.LockRequest{{Validator: common.BytesToAddress([]byte("nobody")), Token: common.Address{}, Amount: big.NewInt(1)}}}
		plan.Requests = append(plan.Requests, bad.Encode()...)
	}
	queuesBusy := len(m.hashes)+len(m.deposits)+len(m.rejected)+len(m.rewards)+len(m.unlocks) > 0
	over := len(m.deposits) > 8 || len(m.rejected) > 8 || len(m.rewards) > 16 || len(m.unlocks) > 16 || len(m.hashes) > 1
	if over || (queuesBusy && (shape == 2 || shape == 3 || shape == 4 || shape == 5)) {
		w.nt = true
	}

	// the node under test is validator 0: it is the proposer of every round (a second validator may be in the set)
	propIdx := -1
	for i, v := range sim.Chain.Vals.Validators {
		if bytes.Equal(v.Address, world.NewAccount(world.DomValidator, 0).Addr()) {
			propIdx = i
		}
	}
	blk := sim.Chain.NextBlock(time.Duration(r.DT)*time.Second, propIdx, nil, nil)
	*blockTimeHolder = blk.Time
	want := m.expected()
	engine := sim.Node.Eng
	var ethTx []byte
	ethOK := false
	switch shape {
	case 0, 2: // the real proposal builder
		reps := 1
		if shape == 2 {
			reps = 1 + abs(r.Repeat)%3
		}
		var last *abci.ResponsePrepareProposal
		for i := 0; i < reps+1 && (i == 0 || shape == 2); i++ {
			engine.SetPlan(plan)
			engine.TakeLog()
			pr, err := sim.Node.Prepare(blk.PrepareReq(nil))
			w.prepares++
			if err != nil {
				return failf("no-crash", "prepare-failed", "%v", err)
			}
			var goatTxs [][]byte
			seen := false
			for _, c := range engine.TakeLog() {
				if c.Method == "fcu" && c.HasAttrs {
					goatTxs, seen = c.GoatTxs, true
				}
			}
			if !seen {
				o.Inconclusive = true
				return nil
			}
			if fl := compareSys(goatTxs, want, fmt.Sprintf("round %d prepare #%d (payload attributes)", ri, i)); fl != nil {
				return fl
			}
			last = pr
		}
		if len(last.Txs) == 0 {
			o.Inconclusive = true
			return nil
		}
		if _, msg, _ := decodeEthBlockTx(sim.Node, last.Txs[0]); msg == nil {
			o.Inconclusive = true // the 1.2 s engine deadline was missed under load: the SDK falls back to the raw tx list
			return nil
		}
		ethTx = last.Txs[0]
	case 1, 5:
		prop0 := sim.Keys[string(blk.Proposer)]
		if shape == 1 && r.LostRound && blk.Height > sim.Chain.Initial {
			lost := blk
			lost.Hash = world.DSha(append([]byte("lost-round"), blk.Hash...))
			rawA, msgA, err := sim.Node.BuildEthBlockTx(lost, prop0, world.EthBlockOpts{Plan: plan})
			if err != nil {
				return failf("fixture", "eth-tx-build-failed", "%v", err)
			}
			engine.TakeLog()
			pp, err := sim.Node.Process(lost.ProcessReq(append([][]byte{rawA}, txs...)))
			if err != nil {
				return failf("no-crash", "process-failed", "%v", err)
			}
			if pp.Status == abci.ResponseProcessProposal_ACCEPT {
				time.Sleep(40 * time.Millisecond) // anything the application starts on its own after accepting gets time to show
				for _, c := range engine.TakeLog() {
					if c.Method == "fcu" && !c.HasAttrs && bytes.Equal(c.Head[:], msgA.Payload.BlockHash) {
						return failf("unfinalised-consumes-nothing", "undecided-payload-made-head", "round %d: a proposal that was only accepted, never decided, was handed to the execution layer as its head (%x)", ri, c.Head[:6])
					}
				}
				o.Classes = append(o.Classes, "lost-round")
				w.nt = true
			}
		}
		raw, _, err := sim.Node.BuildEthBlockTx(blk, prop0, world.EthBlockOpts{Plan: plan})
		if err != nil {
			return failf("fixture", "eth-tx-build-failed", "%v", err)
		}
		ethTx = raw
	case 3:
		// a proposal whose system section deviates from what is due; everything else (block hash, count byte) consistent
		prop0 := sim.Keys[string(blk.Proposer)]
		mutated := false
		raw, _, err := sim.Node.BuildEthBlockTx(blk, prop0, world.EthBlockOpts{Plan: plan, MutateEnv: func(a *world.BuildAttrs) {
			g := a.GoatTxs
			switch abs(r.Mut) % 5 {
			case 0: // drop one
				if len(g) > 0 {
					i := abs(r.Repeat) % len(g)
					a.GoatTxs = append(append([][]byte{}, g[:i]...), g[i+1:]...)
					mutated = true
				}
			case 1: // duplicate one
				if len(g) > 0 {
					i := abs(r.Repeat) % len(g)
					a.GoatTxs = append(append(append([][]byte{}, g[:i+1]...), g[i]), g[i+1:]...)
					mutated = true
				}
			case 2: // swap two
				if len(g) > 1 {
					i := abs(r.Repeat) % (len(g) - 1)
					c := append([][]byte{}, g...)
					c[i], c[i+1] = c[i+1], c[i]
					if !bytes.Equal(c[i], g[i]) {
						a.GoatTxs = c
						mutated = true
					}
				}
			case 3: // a foreign system transaction in front
				foreign := bitcointypes.NewRejectEthTx(424242, 77)
				fb, _ := foreign.MarshalBinary()
				a.GoatTxs = append([][]byte{fb}, g...)
				mutated = true
			case 4: // an invented one at the end
				foreign := bitcointypes.NewBitcoinHashEthTx(m.bridgeNonce+uint64(len(g)), world.DSha([]byte("invented")))
				fb, _ := foreign.MarshalBinary()
				a.GoatTxs = append(append([][]byte{}, g...), fb)
				mutated = true
			}
		}})
		if err != nil {
			return failf("fixture", "eth-tx-build-failed", "%v", err)
		}
		if !mutated {
			// nothing due, nothing to mutate: behave like an honest harness-built block
			shape = 1
			ethTx = raw
			break
		}
		all := append([][]byte{raw}, txs...)
		pp, err := sim.Node.Process(blk.ProcessReq(all))
		if err != nil {
			return failf("no-crash", "process-failed", "%v", err)
		}
		if pp.Status == abci.ResponseProcessProposal_ACCEPT {
			return failf("payload-must-carry-due-txs", "deviating-system-section-accepted", "round %d: a proposal whose system section deviates (mutation %d) from the due transactions was accepted", ri, abs(r.Mut)%5)
		}
		ethTx = raw // force-finalise it anyway: the message must fail and consume nothing
	case 4:
		ethTx = nil
	}
	var all [][]byte
	if ethTx != nil {
		all = append(all, ethTx)
	}
	all = append(all, txs...)
	if shape == 0 || shape == 2 {
		pp, err := sim.Node.Process(blk.ProcessReq(all))
		if err != nil {
			return failf("no-crash", "process-failed", "%v", err)
		}
		if pp.Status != abci.ResponseProcessProposal_ACCEPT {
			return failf("honest-accepted", "honest-proposal-rejected", "round %d: the honest proposal was rejected", ri)
		}
	}
	res, err := sim.Exec(blk, all, false)
	if err != nil {
		return failf("block-processing", "block-failed", "%v", err)
	}
	off := 0
	if ethTx != nil {
		off = 1
		ethOK = res.Resp.TxResults[0].Code == 0
		switch shape {
		case 3, 5:
			if ethOK {
				return failf("unfinalised-consumes-nothing", "bad-payload-message-succeeded", "round %d (%s): the execution-block message succeeded", ri, hoShapes[shape])
			}
		default:
			if !ethOK {
				return failf("honest-message-succeeds", "honest-eth-message-failed", "round %d (%s): %s", ri, hoShapes[shape], res.Resp.TxResults[0].Log)
			}
		}
	}
	if ethOK {
		// the leading transactions of the finalised payload are byte-for-byte the due ones
		_, msg, _ := decodeEthBlockTx(sim.Node, ethTx)
		n := int(msg.Payload.ExtraData[0])
		if fl := compareSys(msg.Payload.Transactions[:n], want, fmt.Sprintf("round %d finalised payload", ri)); fl != nil {
			return fl
		}
		m.consume()
		for _, fn := range reqOK {
			fn()
		}
	}
	for i := range txs {
		code := res.Resp.TxResults[off+i].Code
		if onOK[i] == nil {
			if code == 0 && mustFail[i] != "" {
				sig := "ended-withdrawal-refunded-again"
				if strings.Contains(mustFail[i], "deposit") {
					sig = "duplicate-deposit-in-batch-accepted"
				}
				return failf("never-duplicated", sig, "round %d: %s", ri, mustFail[i])
			}
			if code == 0 {
				return failf("gap-free-heights", "batch-not-starting-at-tip+1-accepted", "round %d: a block-hash batch starting %+d off the tip was accepted", ri, r.HashStartOff)
			}
			continue
		}
		if code != 0 {
			return failf("fixture", "queue-filling-tx-failed", "round %d tx %d failed: %s", ri, i, res.Resp.TxResults[off+i].Log)
		}
		onOK[i]()
	}
	// end of block: matured unlocks become due
	var rest []hoUnlock
	var ready []hoUnlock
	for _, u := range m.pendingUnlocks {
		if !u.maturity.After(blk.Time) {
			ready = append(ready, u)
		} else {
			rest = append(rest, u)
		}
	}
	for i := 1; i < len(ready); i++ {
		for j := i; j > 0 && (ready[j].maturity.Before(ready[j-1].maturity) || (ready[j].maturity.Equal(ready[j-1].maturity) && ready[j].order < ready[j-1].order)); j-- {
			ready[j], ready[j-1] = ready[j-1], ready[j]
		}
	}
	for _, u := range ready {
		m.unlocks = append(m.unlocks, u.key)
	}
	m.pendingUnlocks = rest
	if r.Restart {
		n2, err := sim.Node.Restart()
		if err != nil {
			return failf("restart", "restart-failed", "%v", err)
		}
		sim.Node = n2
		o.Classes = append(o.Classes, "restart")
	}
	return nil
}

func runHoCase(c HoCase) Outcome {
	o := Outcome{}
	f, err := newDepFixtureWith(c.Params, c.Keys, c.Blocks, func(s *world.GenesisSpec) {
		if c.ExitMode > 0 {
			s.LockingParams.ExitingDuration = s.LockingParams.UnlockDuration + time.Duration(c.ExitMode-1)*time.Second
		}
	})
	if err != nil {
		if c.Params.Rate >= 10_000 {
			o.Classes = append(o.Classes, "config-rejected-by-genesis")
			return o
		}
		o.Fail = failf("fixture", "fixture-failed", "%v", err)
		return o
	}
	defer func() { f.close() }()
	anyExit := false
	for _, r := range c.Rounds {
		anyExit = anyExit || r.ExitUnlocks > 0
	}
	if anyExit {
		// a second validator holding exactly the threshold (created and funded through execution-layer requests)
		ev := hoExitValidator()
		f.sim.RegisterKey(ev)
		for _, lr := range []goattypes.LockingRequests{
			{Creates: []*goattypes.CreateRequest{{Validator: ev.EthAddr(), Pubkey: ev.Uncompressed64()}}},
			{Locks: []*goattypes.LockRequest{{Validator: ev.EthAddr(), Token: common.Address{}, Amount: world.Btc18.BigInt()}}},
		} {
			res, err := f.sim.Step(world.StepOpts{DT: 5 * time.Second, Proposer: -1, Eth: world.EthBlockOpts{Plan: world.BuildPlan{Requests: lr.Encode()}}})
			if err != nil || res.Resp.TxResults[0].Code != 0 {
				o.Fail = failf("fixture", "fixture-failed", "second validator: %v", err)
				return o
			}
		}
		o.Classes = append(o.Classes, fmt.Sprintf("exit-validator/extra=%d", c.ExitMode-1))
	}
	vf := &voteFixture{sim: f.sim, n: 2, btcKey: c.Keys[len(c.Keys)-1].key()}
	w := &hoWorld{f: f, vf: vf, credited: map[int]bool{}, creditedKeys: map[string]bool{}, nextWd: 1, nextID: 1, wdStatus: map[uint64]string{},
		m: &hoModel{delivered: map[string]int{}, owed: map[string]int{}, deliveredOrder: map[string][]string{}, owedOrder: map[string][]string{}, voted: map[uint64][]byte{}, tip: depTip}}
	for ri, r := range c.Rounds {
		if fl := w.round(ri, r, &o); fl != nil {
			o.Fail = fl
			return o
		}
		if o.Inconclusive {
			return o
		}
		o.Evals++
	}
	// drain with honest empty blocks
	for i := 0; i < 600; i++ {
		m := w.m
		if len(m.hashes)+len(m.deposits)+len(m.paid)+len(m.rejected)+len(m.rewards)+len(m.unlocks)+len(m.pendingUnlocks) == 0 {
			break
		}
		if fl := w.round(len(c.Rounds)+i, HoRound{DT: 5, Shape: 1}, &o); fl != nil {
			o.Fail = fl
			return o
		}
	}
	m := w.m
	for k, n := range m.owed {
		if m.delivered[k] != n {
			o.Fail = failf("exactly-once", "owed-not-delivered-once", "%s owed %d time(s), delivered %d", k, n, m.delivered[k])
			return o
		}
	}
	for k, n := range m.delivered {
		if m.owed[k] != n {
			o.Fail = failf("exactly-once", "delivered-not-owed", "%s delivered %d time(s), owed %d", k, n, m.owed[k])
			return o
		}
	}
	for kind, owed := range m.owedOrder {
		if kind == "unlock" {
			continue // unlocks are ordered by maturity, checked through the due lists
		}
		if strings.Join(owed, ",") != strings.Join(m.deliveredOrder[kind], ",") {
			o.Fail = failf("fifo", "order-within-kind", "%s: delivered order differs from the order owed", kind)
			return o
		}
	}
	// voted heights: gap-free and never rewritten
	var bg bitcointypes.GenesisState
	raw, err := f.sim.Node.App.ModuleManager.ExportGenesisForModules(f.sim.Node.CommittedCtx(), f.sim.Node.App.AppCodec(), []string{"bitcoin"})
	if err == nil {
		err = f.sim.Node.App.AppCodec().UnmarshalJSON(raw["bitcoin"], &bg)
	}
	if err != nil {
		o.Fail = failf("observation", "export-failed", "%v", err)
		return o
	}
	if bg.BlockTip != m.tip {
		o.Fail = failf("gap-free-heights", "tip-mismatch", "bitcoin tip %d, model %d", bg.BlockTip, m.tip)
		return o
	}
	for h, want := range m.voted {
		i := int(bg.BlockTip - h)
		if i >= len(bg.BlockHashes) || !bytes.Equal(bg.BlockHashes[i], want) {
			o.Fail = failf("append-only-heights", "voted-hash-rewritten", "hash voted for height %d changed or is missing", h)
			return o
		}
	}
	o.NonTrivial = w.nt
	return o
}

func genHoCase(t *rapid.T) HoCase {
	c := HoCase{Params: genDepParams(t), Keys: genKeys(t)}
	if c.Params.Rate >= 10_000 {
		c.Params.Rate = 25
	}
	c.Blocks = genDepBlocks(t, c.Params, c.Keys, rapid.IntRange(4, 12).Draw(t, "nblocks"), true)
	nr := rapid.IntRange(4, 24).Draw(t, "nrounds")
	for i := 0; i < nr; i++ {
		r := HoRound{DT: rapid.SampledFrom([]int{1, 3, 5, 8}).Draw(t, "dt"),
			Shape: rapid.SampledFrom([]int{1, 1, 1, 1, 0, 2, 3, 3, 4, 5}).Draw(t, "shape"),
			Mut:   rapid.IntRange(0, 4).Draw(t, "mut"), Repeat: rapid.IntRange(0, 9).Draw(t, "repeat"),
			Restart: rapid.IntRange(0, 7).Draw(t, "restart") == 0}
		if rapid.IntRange(0, 2).Draw(t, "hashRoll") == 0 {
			r.Hashes = rapid.SampledFrom([]int{1, 2, 3, 16}).Draw(t, "hashes")
			if rapid.IntRange(0, 5).Draw(t, "badStart") == 0 {
				r.HashStartOff = rapid.SampledFrom([]int{-1, 1, 2}).Draw(t, "startOff")
			}
		}
		if rapid.IntRange(0, 2).Draw(t, "depRoll") == 0 {
			k := rapid.IntRange(1, 12).Draw(t, "ndeps")
			for j := 0; j < k; j++ {
				r.Deposits = append(r.Deposits, rapid.IntRange(0, 11).Draw(t, "dep"))
			}
			if rapid.IntRange(0, 5).Draw(t, "dupDep") == 0 {
				r.DupDeposit = rapid.IntRange(1, 12).Draw(t, "dupDepIdx")
			}
		}
		if rapid.IntRange(0, 3).Draw(t, "badWdRoll") == 0 {
			r.BadWithdraws = rapid.SampledFrom([]int{1, 2, 9, 12}).Draw(t, "badWd")
		}
		if rapid.IntRange(0, 3).Draw(t, "wdRoll") == 0 {
			r.Withdraws = rapid.IntRange(1, 3).Draw(t, "wd")
		}
		if rapid.IntRange(0, 3).Draw(t, "cancelRoll") == 0 {
			r.Cancels = []int{rapid.IntRange(0, 9).Draw(t, "cancel")}
		}
		if rapid.IntRange(0, 3).Draw(t, "approveRoll") == 0 {
			r.Approves = []int{rapid.IntRange(0, 9).Draw(t, "approve")}
		}
		if rapid.IntRange(0, 3).Draw(t, "claimRoll") == 0 {
			r.Claims = rapid.SampledFrom([]int{1, 2, 17, 20}).Draw(t, "claims")
		}
		if rapid.IntRange(0, 3).Draw(t, "unlockRoll") == 0 {
			r.Unlocks = rapid.SampledFrom([]int{1, 3, 17, 22}).Draw(t, "unlocks")
		}
		r.LostRound = rapid.IntRange(0, 3).Draw(t, "lostRound") == 0
		if rapid.IntRange(0, 4).Draw(t, "staleCancelRoll") == 0 {
			r.StaleCancels = []int{rapid.IntRange(0, 9).Draw(t, "staleCancel")}
		}
		if rapid.IntRange(0, 4).Draw(t, "staleApproveRoll") == 0 {
			r.StaleApprove = rapid.IntRange(1, 10).Draw(t, "staleApprove")
		}
		c.Rounds = append(c.Rounds, r)
	}
	// half of the histories have a second validator that exits: its unlocks mature after the exit delay, which is
	// chosen so that a later plain unlock can mature at exactly the same instant (delays differ by 0, 1, 3, 5, 8 or 40 s)
	if rapid.Bool().Draw(t, "exitValidator") {
		c.ExitMode = 1 + rapid.SampledFrom([]int{0, 1, 3, 5, 8, 40}).Draw(t, "exitExtra")
		for i := range c.Rounds {
			if rapid.IntRange(0, 3).Draw(t, "exitRoll") == 0 {
				c.Rounds[i].ExitUnlocks = rapid.SampledFrom([]int{1, 1, 2, 5}).Draw(t, "exitUnlocks")
			}
		}
	}
	return c
}

func TestC06_HandOver(t *testing.T) {
	RunProp(t, Prop[HoCase]{
		ID: "C06", Name: "handover", Quick: 480, Thor: 8000,
		Gen: genHoCase, Run: runHoCase,
		Rule: "histories of 4-24 rounds that fill every queue (voted hash batches of 1-16 hashes incl. batches not starting at tip+1, deposit batches of 1-12 (some listing one output twice, which must fail as a whole), refunds from undecodable addresses and approved cancellations, cancel requests and approvals aimed at withdrawals that were already refunded (no effect / must fail), claims and unlock bursts above the caps, unlocks of a second validator that exits and whose exit delay makes them mature together with later plain unlocks) under six round shapes: real PrepareProposal+ProcessProposal+FinalizeBlock, harness-built honest proposal (in a quarter of these rounds preceded by another well-formed proposal for the same height that passes ProcessProposal but is never decided: the execution layer must not be given it as head), proposals prepared 1-3 times but never finalised, proposals whose system section is mutated (drop, duplicate, swap, foreign tx in front, invented tx at the end; block hash and count byte kept consistent) which must be REJECTED and whose message must fail when force-finalised, blocks without an execution-block message, failing execution-block messages; restarts between blocks; oracle: per-kind FIFO model with caps (1 hash, 8 deposits, 8 paid+refund, 16 rewards, 16 unlocks) and per-module nonces, compared with the payload attributes the fake execution layer receives at every prepare and with the leading transactions of every finalised payload; after a drain every owed item was delivered exactly once in order; voted heights are gap-free and never rewritten; non-trivial = a queue exceeded its cap or a non-finalised/rejected/failed round happened with non-empty queues; evaluations count rounds",
	})
}

var _ = goatmodtypes.ModuleName
