package props

// The "locking world" shared by C11..C15: generated configurations and
// histories of execution-layer locking requests, vote records, evidence and
// block times, a reference model written from the statements, and the
// observation of the real application through its genesis export, its system
// transactions and the validator updates consumed by CometBFT's ValidatorSet.

import (
	"bytes"
	"encoding/hex"
	"encoding/json"
	"fmt"
	"math/big"
	"sort"
	"time"

	"cosmossdk.io/math"
	sdk "github.com/cosmos/cosmos-sdk/types"
	"github.com/ethereum/go-ethereum/common"
	"github.com/ethereum/go-ethereum/core/types/goattypes"
	lockingtypes "github.com/goatnetwork/goat/x/locking/types"
	"verif/harness/world"
)

// ---- data-only case ----

type TokCfg struct {
	Weight    uint64 `json:"weight"`
	Threshold string `json:"threshold"`
}

type LockCfg struct {
	NVal        int        `json:"nval"`
	MaxVals     int64      `json:"max_vals"`
	Tokens      []TokCfg   `json:"tokens"` // token universe index = position (0 btc, 1 goat, 2 custom)
	Stakes      [][]string `json:"stakes"` // per genesis validator, per token
	Window      int64      `json:"window"`
	MaxMissed   int64      `json:"max_missed"`
	SlashDown   string     `json:"slash_down"`
	SlashDouble string     `json:"slash_double"`
	// Start > 1: the chain's initial height (heights around 64 halving intervals and far beyond are of interest)
	Start      int64  `json:"start,omitempty"`
	UnlockSec  int    `json:"unlock_sec"`
	ExitSec    int    `json:"exit_sec"`
	JailSec    int    `json:"jail_sec"`
	Halving    int64  `json:"halving"`
	InitReward int64  `json:"init_reward"`
	Remain     string `json:"remain"`
	EvBlocks   int64  `json:"ev_blocks"`
	EvSec      int    `json:"ev_sec"`
}

type EvSpec struct {
	V         int   `json:"v"`
	LC        bool  `json:"lc"`
	AgeBlocks int64 `json:"age_blocks"`
	AgeSec    int   `json:"age_sec"`
}
type LockReq struct {
	V   int    `json:"v"`
	Tok int    `json:"tok"`
	Amt string `json:"amt"`
}
type UnlockReq struct {
	ID  uint64 `json:"id"`
	V   int    `json:"v"`
	Tok int    `json:"tok"`
	Amt string `json:"amt"`
}
type ClaimReq struct {
	ID uint64 `json:"id"`
	V  int    `json:"v"`
}
type WeightReq struct {
	Tok int    `json:"tok"`
	W   uint64 `json:"w"`
}
type ThresholdReq struct {
	Tok int    `json:"tok"`
	Th  string `json:"th"`
}

type LockBlock struct {
	DT         int            `json:"dt"`
	Proposer   int            `json:"proposer"`
	Absent     []int          `json:"absent,omitempty"`
	Evidence   []EvSpec       `json:"evidence,omitempty"`
	Creates    []int          `json:"creates,omitempty"`
	Locks      []LockReq      `json:"locks,omitempty"`
	Unlocks    []UnlockReq    `json:"unlocks,omitempty"`
	Claims     []ClaimReq     `json:"claims,omitempty"`
	Grants     []string       `json:"grants,omitempty"`
	Weights    []WeightReq    `json:"weights,omitempty"`
	Thresholds []ThresholdReq `json:"thresholds,omitempty"`
	Gas        string         `json:"gas,omitempty"`
	Bad        int            `json:"bad,omitempty"` // deliberately failing request kind (0 = none)
	// Reimport: before this block the chain is restarted from its exported state (export -> fresh application -> InitChain)
	Reimport bool `json:"reimport,omitempty"`
}

type LockCase struct {
	Cfg    LockCfg     `json:"cfg"`
	Blocks []LockBlock `json:"blocks"`
}

// ---- universe ----

const lockUniverse = 8 // validator indices 0..7; index 7 shares its key with relayer voter 1

func valAccount(idx int) world.Account {
	if idx == 7 {
		return world.NewAccount(world.DomRelayer, 1)
	}
	return world.NewAccount(world.DomValidator, idx)
}

var tokenAddrs = []common.Address{{}, goattypes.GoatTokenContract, common.HexToAddress("0x00000000000000000000000000000000000000aa")}
var unknownToken = common.HexToAddress("0x00000000000000000000000000000000000000ff")

func tokenDenom(a common.Address) string {
	switch a {
	case common.Address{}:
		return "btc"
	case goattypes.GoatTokenContract:
		return "goat"
	}
	return "tkn:" + hex.EncodeToString(a[:])
}

func bigOf(s string) *big.Int {
	if s == "" {
		return new(big.Int)
	}
	v, ok := new(big.Int).SetString(s, 10)
	if !ok {
		panic("bad integer " + s)
	}
	return v
}

var e18 = new(big.Int).Exp(big.NewInt(10), big.NewInt(18), nil)

// decFrac parses "0.02" into an 18-decimal fixed-point integer.
func decFrac(s string) *big.Int {
	d, err := math.LegacyNewDecFromStr(s)
	if err != nil {
		panic(err)
	}
	return d.BigInt()
}

// ---- reference model ----

const (
	stPending    = "pending"
	stActive     = "active"
	stDowngrade  = "downgrade"
	stTombstoned = "tombstoned"
	stInactive   = "inactive"
)

type mValidator struct {
	idx      int
	status   string
	holding  map[string]*big.Int // denom -> amount
	offset   int64
	missed   int64
	jailedTo time.Time
	// bookkeeping for temporal checks
	punishedAt int // block index of the last demotion/tombstone, -1 if none
	opsAfter   int // operations aimed at it since
	tombstoned bool
	slashCount int
}

type mUnlock struct {
	id        uint64
	v         int
	token     common.Address
	amount    *big.Int
	maturity  time.Time
	exit      bool
	order     int
	requested *big.Int
}

type mReward struct {
	id uint64
	v  int
}

type lockModel struct {
	cfg        LockCfg
	vals       map[int]*mValidator
	weight     map[string]uint64
	threshold  map[string]*big.Int
	slashed    map[string]*big.Int
	locked     map[string]*big.Int // total ever locked (incl. genesis)
	released   map[string]*big.Int // total ever released through unlocks
	pending    []*mUnlock          // time queue
	execUnlock []*mUnlock          // matured, waiting for delivery
	execReward []mReward
	delivered  []*mUnlock
	unlockSeq  int
	remain     *big.Int
	granted    *big.Int // grants + genesis remain
	gasIn      *big.Int
	claimedOut *big.Int // total value of claim payouts enqueued
	downFrac   *big.Int
	dblFrac    *big.Int
}

func newLockModel(cfg LockCfg) *lockModel {
	m := &lockModel{cfg: cfg, vals: map[int]*mValidator{}, weight: map[string]uint64{}, threshold: map[string]*big.Int{},
		slashed: map[string]*big.Int{}, locked: map[string]*big.Int{}, released: map[string]*big.Int{},
		remain: bigOf(cfg.Remain), granted: bigOf(cfg.Remain), gasIn: new(big.Int), claimedOut: new(big.Int),
		downFrac: decFrac(cfg.SlashDown), dblFrac: decFrac(cfg.SlashDouble)}
	for i, t := range cfg.Tokens {
		d := tokenDenom(tokenAddrs[i])
		m.weight[d] = t.Weight
		m.threshold[d] = bigOf(t.Threshold)
	}
	for i := 0; i < cfg.NVal; i++ {
		v := &mValidator{idx: i, status: stActive, holding: map[string]*big.Int{}, punishedAt: -1}
		for ti, s := range cfg.Stakes[i] {
			if ti >= len(cfg.Tokens) {
				break
			}
			a := bigOf(s)
			if a.Sign() > 0 {
				d := tokenDenom(tokenAddrs[ti])
				v.holding[d] = a
				m.addTo(m.locked, d, a)
			}
		}
		m.vals[i] = v
	}
	return m
}

func (m *lockModel) addTo(mp map[string]*big.Int, k string, a *big.Int) {
	if mp[k] == nil {
		mp[k] = new(big.Int)
	}
	mp[k].Add(mp[k], a)
}

func (v *mValidator) hold(d string) *big.Int {
	if v.holding[d] == nil {
		return new(big.Int)
	}
	return v.holding[d]
}

// slash reduces every holding by floor(fraction*amount), or by all of it if that is zero.
func (m *lockModel) slash(v *mValidator, frac *big.Int) {
	for d, a := range v.holding {
		if a.Sign() == 0 {
			continue
		}
		cut := new(big.Int).Mul(a, frac)
		cut.Quo(cut, e18)
		if cut.Sign() == 0 {
			cut.Set(a)
		}
		m.addTo(m.slashed, d, cut)
		v.holding[d] = new(big.Int).Sub(a, cut)
	}
	v.slashCount++
}

func (m *lockModel) meetsThresholds(v *mValidator) bool {
	for d, th := range m.threshold {
		if th.Sign() > 0 && v.hold(d).Cmp(th) < 0 {
			return false
		}
	}
	return true
}

// ---- genesis from the configuration ----

// lockElectingPeriod is the relayer electing period of locking-world chains (C19 shortens it).
var lockElectingPeriod = 1000 * time.Hour

func (c LockCfg) spec() world.GenesisSpec {
	spec := world.DefaultSpec(0, 2)
	if c.Start > 1 {
		spec.InitialHeight = c.Start
	}
	spec.RelayerParams.ElectingPeriod = lockElectingPeriod
	spec.Tokens = nil
	for i, t := range c.Tokens {
		spec.Tokens = append(spec.Tokens, world.TokenSpec{Denom: tokenDenom(tokenAddrs[i]), Weight: t.Weight, Threshold: math.NewIntFromBigInt(bigOf(t.Threshold))})
	}
	for i := 0; i < c.NVal; i++ {
		var coins sdk.Coins
		power := new(big.Int)
		for ti, s := range c.Stakes[i] {
			if ti >= len(c.Tokens) {
				break
			}
			a := bigOf(s)
			if a.Sign() > 0 {
				coins = coins.Add(sdk.NewCoin(tokenDenom(tokenAddrs[ti]), math.NewIntFromBigInt(a)))
				p := new(big.Int).Mul(a, new(big.Int).SetUint64(c.Tokens[ti].Weight))
				power.Add(power, p.Quo(p, e18))
			}
		}
		spec.Validators = append(spec.Validators, world.ValidatorSpec{Idx: i, Locking: coins, Power: power.Uint64(), Status: lockingtypes.Active})
	}
	lp := lockingtypes.DefaultParams()
	lp.UnlockDuration = time.Duration(c.UnlockSec) * time.Second
	lp.ExitingDuration = time.Duration(c.ExitSec) * time.Second
	lp.DowntimeJailDuration = time.Duration(c.JailSec) * time.Second
	lp.MaxValidators = c.MaxVals
	lp.SignedBlocksWindow = c.Window
	lp.MaxMissedPerWindow = c.MaxMissed
	lp.SlashFractionDowntime = math.LegacyMustNewDecFromStr(c.SlashDown)
	lp.SlashFractionDoubleSign = math.LegacyMustNewDecFromStr(c.SlashDouble)
	lp.HalvingInterval = c.Halving
	lp.InitialBlockReward = c.InitReward
	spec.LockingParams = lp
	spec.Remain = math.NewIntFromBigInt(bigOf(c.Remain))
	spec.EvidenceMaxAgeBlocks = c.EvBlocks
	spec.EvidenceMaxAgeDuration = time.Duration(c.EvSec) * time.Second
	return spec
}

// ---- the runtime world ----

type lockWorld struct {
	hook     func(blk world.Block, txs [][]byte, res *world.StepResult) *Failure
	hookFail *Failure
	// powerBeyondCap: some validator's exact (unbounded) voting power may have exceeded CometBFT's
	// MaxTotalVotingPower in this or an earlier block (upper bound over the model) - the region of the
	// recorded known finding 'voting power is not bounded'
	powerBeyondCap bool
	reimports      int
	sim            *world.Sim
	m              *lockModel
	obs            *lockingtypes.GenesisState // latest export
	prev           *lockingtypes.GenesisState
	bi             int // block index in the case
	// per-block facts for the property checkers
	ethOK       bool
	resp        *world.StepResult
	blk         world.Block
	sysTxs      []world.SysTx // locking system txs of this block's payload (handed over iff ethOK)
	absentNow   map[string]bool
	claimedNow  map[int][2]*big.Int // validator idx -> (goat, gas) paid by claims in this block
	downNow     []int               // validators demoted in this block's begin-block
	tombNow     []int
	exitNow     []int
	poolBefore  lockingtypes.RewardPool
	rewardMoved *big.Int // model: amount moved from remain into the goat pool in this block
	gasNow      *big.Int
	votes       []voteShare
}

type voteShare struct {
	idx   int
	power int64
}

func newLockWorld(c LockCase) (*lockWorld, error) {
	spec := c.Cfg.spec()
	for i := 0; i < lockUniverse; i++ {
		_ = i
	}
	s, err := world.NewSim(spec)
	if err != nil {
		return nil, err
	}
	for i := 0; i < lockUniverse; i++ {
		s.RegisterKey(valAccount(i))
	}
	w := &lockWorld{sim: s, m: newLockModel(c.Cfg)}
	return w, nil
}

func (w *lockWorld) close() { w.sim.Close() }

func (w *lockWorld) export() (*lockingtypes.GenesisState, error) {
	n := w.sim.Node
	raw, err := n.App.ModuleManager.ExportGenesisForModules(n.CommittedCtx(), n.App.AppCodec(), []string{"locking"})
	if err != nil {
		return nil, err
	}
	var g lockingtypes.GenesisState
	if err := n.App.AppCodec().UnmarshalJSON(raw["locking"], &g); err != nil {
		return nil, err
	}
	return &g, nil
}

func idxOfPubkey(pk []byte) int {
	for i := 0; i < lockUniverse; i++ {
		if bytes.Equal(valAccount(i).PubKey().Key, pk) {
			return i
		}
	}
	return -1
}

func idxOfAddr(addr []byte) int {
	for i := 0; i < lockUniverse; i++ {
		if bytes.Equal(valAccount(i).Addr(), addr) {
			return i
		}
	}
	return -1
}

func statusName(s lockingtypes.ValidatorStatus) string {
	switch s {
	case lockingtypes.Pending:
		return stPending
	case lockingtypes.Active:
		return stActive
	case lockingtypes.Downgrade:
		return stDowngrade
	case lockingtypes.Tombstoned:
		return stTombstoned
	case lockingtypes.Inactive:
		return stInactive
	}
	return s.String()
}

func (w *lockWorld) obsValidator(g *lockingtypes.GenesisState, idx int) *lockingtypes.Validator {
	pk := valAccount(idx).PubKey().Key
	for i := range g.Validators {
		if bytes.Equal(g.Validators[i].Pubkey, pk) {
			return &g.Validators[i]
		}
	}
	return nil
}

// step executes one generated block against the application and the model.
// It returns a non-nil error when block processing failed (the chain halted).
func (w *lockWorld) step(bi int, lb LockBlock) error {
	m := w.m
	w.bi = bi
	if lb.Reimport && bi > 0 {
		if err := w.sim.Reimport(); err != nil {
			return fmt.Errorf("re-import of the exported state: %w", err)
		}
		w.reimports++
	}
	sim := w.sim
	chain := sim.Chain
	// abstract validator references are resolved against the validators that
	// exist right now (anchor excluded unless allowed), so that most requests
	// reach the logic instead of failing on an unknown validator
	var live []int
	for idx := range m.vals {
		if idx != 0 {
			live = append(live, idx)
		}
	}
	sort.Ints(live)
	resolve := func(v int, anchorOK bool) int {
		v = abs(v) % lockUniverse
		if anchorOK && v == 0 {
			return 0
		}
		if len(live) == 0 {
			return v
		}
		return live[v%len(live)]
	}
	// --- consensus-side choices, kept legal ---
	absent := map[string]bool{}
	total, off := int64(0), int64(0)
	for _, v := range chain.LastVals.Validators {
		total += v.VotingPower
	}
	for _, a := range lb.Absent {
		if a == 0 {
			continue // the anchor validator always signs
		}
		addr := valAccount(resolve(a, false)).Addr()
		_, v := chain.LastVals.GetByAddress(addr)
		if v == nil || absent[string(addr)] {
			continue
		}
		if (off+v.VotingPower)*3 >= total {
			continue // a commit needs more than two thirds
		}
		off += v.VotingPower
		absent[string(addr)] = true
	}
	w.absentNow = absent
	dt := time.Duration(lb.DT) * time.Second
	if dt <= 0 {
		dt = time.Second
	}
	nextTime := chain.Time.Add(dt)
	var evs []world.Evidence
	for _, e := range lb.Evidence {
		idx := resolve(e.V, false)
		if idx == 0 {
			continue
		}
		if _, ok := m.vals[idx]; !ok {
			continue // evidence always concerns a validator known to the chain
		}
		evs = append(evs, world.Evidence{LightClient: e.LC, Addr: valAccount(idx).Addr(), Power: 1,
			Height: chain.Height + 1 - e.AgeBlocks, Time: nextTime.Add(-time.Duration(e.AgeSec) * time.Second), TotalPower: total})
	}
	// --- execution-layer requests ---
	lr := goattypes.LockingRequests{}
	for _, c := range lb.Creates {
		idx := abs(c) % lockUniverse
		a := valAccount(idx)
		lr.Creates = append(lr.Creates, &goattypes.CreateRequest{Validator: a.EthAddr(), Pubkey: a.Uncompressed64()})
	}
	tokAddr := func(t int) common.Address { return tokenAddrs[abs(t)%len(tokenAddrs)] }
	for _, l := range lb.Locks {
		lr.Locks = append(lr.Locks, &goattypes.LockRequest{Validator: valAccount(resolve(l.V, false)).EthAddr(), Token: tokAddr(l.Tok), Amount: bigOf(l.Amt)})
	}
	for _, u := range lb.Unlocks {
		lr.Unlocks = append(lr.Unlocks, &goattypes.UnlockRequest{Id: u.ID, Validator: valAccount(resolve(u.V, false)).EthAddr(),
			Recipient: common.BytesToAddress([]byte(fmt.Sprintf("rcpt-%d", u.ID))), Token: tokAddr(u.Tok), Amount: bigOf(u.Amt)})
	}
	for _, c := range lb.Claims {
		lr.Claims = append(lr.Claims, &goattypes.ClaimRequest{Id: c.ID, Validator: valAccount(resolve(c.V, true)).EthAddr(),
			Recipient: common.BytesToAddress([]byte(fmt.Sprintf("claim-%d", c.ID)))})
	}
	for _, g := range lb.Grants {
		lr.Grants = append(lr.Grants, &goattypes.GrantRequest{Amount: bigOf(g)})
	}
	for _, wq := range lb.Weights {
		lr.UpdateWeights = append(lr.UpdateWeights, &goattypes.UpdateTokenWeightRequest{Token: tokAddr(wq.Tok), Weight: wq.W})
	}
	for _, tq := range lb.Thresholds {
		lr.UpdateThresholds = append(lr.UpdateThresholds, &goattypes.UpdateTokenThresholdRequest{Token: tokAddr(tq.Tok), Threshold: bigOf(tq.Th)})
	}
	stranger := common.BytesToAddress([]byte("no-such-validator"))
	switch lb.Bad {
	case 1:
		lr.Locks = append(lr.Locks, &goattypes.LockRequest{Validator: stranger, Token: tokenAddrs[0], Amount: big.NewInt(5)})
	case 2:
		lr.Unlocks = append(lr.Unlocks, &goattypes.UnlockRequest{Id: 999_000 + uint64(bi), Validator: stranger, Token: tokenAddrs[0], Amount: big.NewInt(5)})
	case 3:
		lr.UpdateThresholds = append(lr.UpdateThresholds, &goattypes.UpdateTokenThresholdRequest{Token: unknownToken, Threshold: big.NewInt(1)})
	case 4:
		lr.Claims = append(lr.Claims, &goattypes.ClaimRequest{Id: 999_000 + uint64(bi), Validator: stranger})
	}
	gas := bigOf(lb.Gas)
	plan := world.BuildPlan{GasAmount: gas, Requests: lr.Encode()}
	w.poolBefore = lockingtypes.RewardPool{}
	if w.obs != nil {
		w.poolBefore = w.obs.RewardPool
	}
	blk, txs, err := sim.Begin(world.StepOpts{DT: dt, Proposer: lb.Proposer, Absent: absent, Evidence: evs, Eth: world.EthBlockOpts{Plan: plan}})
	if err != nil {
		return fmt.Errorf("begin: %w", err)
	}
	w.blk = blk
	w.votes = nil
	for _, v := range blk.Votes {
		w.votes = append(w.votes, voteShare{idx: idxOfAddr(v.Validator.Address), power: v.Validator.Power})
	}
	res, err := sim.Exec(blk, txs, false)
	w.resp = res
	if err != nil {
		return err
	}
	if w.hook != nil {
		if fl := w.hook(blk, txs, res); fl != nil {
			w.hookFail = fl
			return fmt.Errorf("hook: %s", fl.Detail)
		}
	}
	w.ethOK = res.Resp.TxResults[0].Code == 0
	// system transactions of the payload
	w.sysTxs = nil
	if _, msg, _ := decodeEthBlockTx(sim.Node, txs[0]); msg != nil {
		n := int(msg.Payload.ExtraData[0])
		for _, raw := range msg.Payload.Transactions[:n] {
			st, err := world.DecodeSysTx(raw)
			if err != nil {
				return fmt.Errorf("undecodable system tx: %w", err)
			}
			if st.Module == goattypes.LockingModule {
				w.sysTxs = append(w.sysTxs, st)
			}
		}
	}
	w.prev = w.obs
	g, err := w.export()
	if err != nil {
		return fmt.Errorf("export: %w", err)
	}
	w.obs = g

	// ---- model: begin block ----
	w.downNow, w.tombNow, w.exitNow = nil, nil, nil
	// downtime
	for _, vote := range blk.Votes {
		idx := idxOfAddr(vote.Validator.Address)
		v := m.vals[idx]
		if v == nil || v.status != stActive {
			continue
		}
		if absent[string(vote.Validator.Address)] {
			v.missed++
		}
		down := v.missed >= m.cfg.MaxMissed
		v.offset++
		if v.offset >= m.cfg.Window {
			v.offset, v.missed = 0, 0
		}
		if down {
			m.slash(v, m.downFrac)
			v.status = stDowngrade
			v.jailedTo = blk.Time.Add(time.Duration(m.cfg.JailSec) * time.Second)
			v.punishedAt, v.opsAfter = bi, 0
			w.downNow = append(w.downNow, idx)
		}
	}
	// evidence
	for _, e := range evs {
		ageT := blk.Time.Sub(e.Time)
		ageB := blk.Height - e.Height
		if ageT > time.Duration(m.cfg.EvSec)*time.Second && ageB > m.cfg.EvBlocks {
			continue
		}
		idx := idxOfAddr(e.Addr)
		v := m.vals[idx]
		if v == nil || v.status == stTombstoned {
			continue
		}
		m.slash(v, m.dblFrac)
		v.status = stTombstoned
		v.tombstoned = true
		v.punishedAt, v.opsAfter = bi, 0
		w.tombNow = append(w.tombNow, idx)
	}

	// ---- model: the execution-block message ----
	w.claimedNow = map[int][2]*big.Int{}
	w.rewardMoved = new(big.Int)
	w.gasNow = new(big.Int)
	if w.ethOK {
		// hand-over: the payload's system txs are consumed
		nr, nu := 0, 0
		for _, st := range w.sysTxs {
			switch st.Tx.(type) {
			case *goattypes.DistributeRewardTx:
				nr++
			case *goattypes.CompleteUnlockTx:
				nu++
			}
		}
		if nr <= len(m.execReward) {
			m.execReward = m.execReward[nr:]
		}
		if nu <= len(m.execUnlock) {
			m.delivered = append(m.delivered, m.execUnlock[:nu]...)
			m.execUnlock = m.execUnlock[nu:]
		}
		// reward pool intake
		w.gasNow.Set(gas)
		m.gasIn.Add(m.gasIn, gas)
		for _, g := range lb.Grants {
			m.remain.Add(m.remain, bigOf(g))
			m.granted.Add(m.granted, bigOf(g))
		}
		reward := big.NewInt(m.cfg.InitReward)
		if halvings := blk.Height / m.cfg.Halving; halvings > 0 {
			reward.Rsh(reward, uint(min64(halvings, 200)))
		}
		if reward.Cmp(m.remain) > 0 {
			reward.Set(m.remain)
		}
		m.remain.Sub(m.remain, reward)
		w.rewardMoved.Set(reward)
		// tokens
		for _, wq := range lb.Weights {
			m.weight[tokenDenom(tokAddr(wq.Tok))] = wq.W
			if _, ok := m.threshold[tokenDenom(tokAddr(wq.Tok))]; !ok {
				m.threshold[tokenDenom(tokAddr(wq.Tok))] = new(big.Int)
			}
		}
		for _, tq := range lb.Thresholds {
			m.threshold[tokenDenom(tokAddr(tq.Tok))] = bigOf(tq.Th)
		}
		// creates
		for _, c := range lb.Creates {
			idx := abs(c) % lockUniverse
			if _, ok := m.vals[idx]; ok {
				continue
			}
			st := stPending
			if idx == 7 {
				st = stInactive // its account already exists (relayer voter): no conflict allowed
			}
			m.vals[idx] = &mValidator{idx: idx, status: st, holding: map[string]*big.Int{}, punishedAt: -1}
		}
		// locks: aggregated per validator
		agg := map[int]map[string]*big.Int{}
		var order []int
		for _, l := range lb.Locks {
			idx := resolve(l.V, false)
			if agg[idx] == nil {
				agg[idx] = map[string]*big.Int{}
				order = append(order, idx)
			}
			d := tokenDenom(tokAddr(l.Tok))
			if agg[idx][d] == nil {
				agg[idx][d] = new(big.Int)
			}
			agg[idx][d].Add(agg[idx][d], bigOf(l.Amt))
		}
		for _, idx := range order {
			v := m.vals[idx]
			if v == nil {
				continue
			}
			for d, a := range agg[idx] {
				if a.Sign() == 0 {
					continue
				}
				v.holding[d] = new(big.Int).Add(v.hold(d), a)
				m.addTo(m.locked, d, a)
			}
			if v.punishedAt >= 0 {
				v.opsAfter++
			}
			if v.status == stDowngrade && blk.Time.After(v.jailedTo) && m.meetsThresholds(v) {
				v.status = stPending
			}
		}
		// unlocks: sequential
		for _, u := range lb.Unlocks {
			idx := resolve(u.V, false)
			v := m.vals[idx]
			if v == nil {
				continue
			}
			d := tokenDenom(tokAddr(u.Tok))
			amt := bigOf(u.Amt)
			if v.hold(d).Cmp(amt) < 0 {
				amt = new(big.Int).Set(v.hold(d))
			}
			left := new(big.Int).Sub(v.hold(d), amt)
			if left.Sign() == 0 {
				delete(v.holding, d)
			} else {
				v.holding[d] = left
			}
			m.addTo(m.released, d, amt)
			th := m.threshold[d]
			if th == nil {
				th = new(big.Int)
			}
			exit := v.status == stInactive || v.status == stTombstoned || left.Cmp(th) < 0
			dur := m.cfg.UnlockSec
			if exit {
				dur = m.cfg.ExitSec
				if v.status == stActive || v.status == stPending || v.status == stDowngrade {
					v.status = stInactive
					w.exitNow = append(w.exitNow, idx)
				}
			}
			if v.punishedAt >= 0 {
				v.opsAfter++
			}
			m.unlockSeq++
			m.pending = append(m.pending, &mUnlock{id: u.ID, v: idx, token: tokAddr(u.Tok), amount: amt, requested: bigOf(u.Amt),
				maturity: blk.Time.Add(time.Duration(dur) * time.Second), exit: exit, order: m.unlockSeq})
		}
		// claims
		for _, c := range lb.Claims {
			idx := resolve(c.V, true)
			if m.vals[idx] == nil {
				continue
			}
			m.execReward = append(m.execReward, mReward{id: c.ID, v: idx})
		}
	}
	// ---- model: end block ----
	// matured unlocks move to the delivery queue, by maturity then request order
	sort.SliceStable(m.pending, func(i, j int) bool {
		if !m.pending[i].maturity.Equal(m.pending[j].maturity) {
			return m.pending[i].maturity.Before(m.pending[j].maturity)
		}
		return m.pending[i].order < m.pending[j].order
	})
	k := 0
	for k < len(m.pending) && !m.pending[k].maturity.After(blk.Time) {
		k++
	}
	m.execUnlock = append(m.execUnlock, m.pending[:k]...)
	m.pending = append([]*mUnlock{}, m.pending[k:]...)
	// membership as CometBFT now sees it
	for idx, v := range m.vals {
		if v.status != stActive && v.status != stPending {
			continue
		}
		_, member := chain.NextVals.GetByAddress(valAccount(idx).Addr())
		was := v.status
		if member != nil {
			v.status = stActive
			if was == stPending {
				v.offset, v.missed = 0, 0
			}
		} else {
			v.status = stPending
		}
	}
	return nil
}

func min64(a, b int64) int64 {
	if a < b {
		return a
	}
	return b
}

// coinsMap converts sdk.Coins to denom -> amount.
func coinsMap(c sdk.Coins) map[string]*big.Int {
	out := map[string]*big.Int{}
	for _, x := range c {
		out[x.Denom] = x.Amount.BigInt()
	}
	return out
}

func sameHoldings(a, b map[string]*big.Int) bool {
	for k, v := range a {
		if v.Sign() == 0 {
			continue
		}
		if b[k] == nil || b[k].Cmp(v) != 0 {
			return false
		}
	}
	for k, v := range b {
		if v.Sign() == 0 {
			continue
		}
		if a[k] == nil || a[k].Cmp(v) != 0 {
			return false
		}
	}
	return true
}

func fmtHold(h map[string]*big.Int) string {
	bz, _ := json.Marshal(h)
	return string(bz)
}

// touchesPowerCap reports whether, with the requests of lb, some validator's exact voting power
// (sum over tokens of weight*amount/1e18, computed without uint64 wrap-around) could exceed
// CometBFT's MaxTotalVotingPower = MaxInt64/8. It is an upper bound: per token the largest weight
// in force or requested and the largest holding plus every amount locked in this block.
func (w *lockWorld) touchesPowerCap(lb LockBlock) bool {
	cap := new(big.Int).SetInt64((1<<63 - 1) / 8)
	total := new(big.Int)
	for ti := range w.m.cfg.Tokens {
		d := tokenDenom(tokenAddrs[ti])
		maxW := new(big.Int).SetUint64(w.m.weight[d])
		for _, wr := range lb.Weights {
			if wr.Tok == ti {
				if x := new(big.Int).SetUint64(wr.W); x.Cmp(maxW) > 0 {
					maxW = x
				}
			}
		}
		maxH := new(big.Int)
		for _, v := range w.m.vals {
			if h := v.holding[d]; h != nil && h.Cmp(maxH) > 0 {
				maxH = new(big.Int).Set(h)
			}
		}
		for _, lr := range lb.Locks {
			if lr.Tok == ti {
				maxH.Add(maxH, bigOf(lr.Amt))
			}
		}
		p := new(big.Int).Mul(maxW, maxH)
		p.Quo(p, big.NewInt(1_000_000_000_000_000_000))
		total.Add(total, p)
	}
	return total.Cmp(cap) > 0
}
