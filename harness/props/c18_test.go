package props

// C18 — exported state re-imports to an equivalent, invariant-respecting state.

import (
	"encoding/json"
	"fmt"
	"github.com/ethereum/go-ethereum/core/types/goattypes"
	"reflect"
	"sort"
	"testing"
	"time"

	abci "github.com/cometbft/cometbft/abci/types"
	cmttypes "github.com/cometbft/cometbft/types"
	dbm "github.com/cosmos/cosmos-db"
	sdk "github.com/cosmos/cosmos-sdk/types"
	"github.com/cosmos/gogoproto/proto"
	bitcoinkeeper "github.com/goatnetwork/goat/x/bitcoin/keeper"
	bitcointypes "github.com/goatnetwork/goat/x/bitcoin/types"
	goatkeeper "github.com/goatnetwork/goat/x/goat/keeper"
	goatmodtypes "github.com/goatnetwork/goat/x/goat/types"
	lockingkeeper "github.com/goatnetwork/goat/x/locking/keeper"
	lockingtypes "github.com/goatnetwork/goat/x/locking/types"
	relayerkeeper "github.com/goatnetwork/goat/x/relayer/keeper"
	relayertypes "github.com/goatnetwork/goat/x/relayer/types"
	"pgregory.net/rapid"
	"verif/harness/world"
)

// ExportCase: a history in one of the three worlds, stopped somewhere, then exported.
type ExportCase struct {
	Source string    `json:"source"` // locking | relayer | withdrawals | params
	Lock   LockCase  `json:"lock,omitempty"`
	Rel    RelCase   `json:"rel,omitempty"`
	Wd     WdCase    `json:"wd,omitempty"`
	Par    ParamCase `json:"par,omitempty"`
	Stop   int       `json:"stop"` // number of blocks to execute (mod length)
	Extra  int       `json:"extra"`
}

// normalise makes null, [] and absent equal so that encoding details are not differences.
func normalise(v any) any {
	switch x := v.(type) {
	case map[string]any:
		out := map[string]any{}
		for k, e := range x {
			n := normalise(e)
			if n == nil {
				continue
			}
			out[k] = n
		}
		if len(out) == 0 {
			return nil
		}
		return out
	case []any:
		if len(x) == 0 {
			return nil
		}
		out := make([]any, len(x))
		for i, e := range x {
			out[i] = normalise(e)
		}
		return out
	}
	return v
}

func diffJSON(path string, a, b any, out *[]string) {
	if len(*out) > 6 {
		return
	}
	if reflect.DeepEqual(a, b) {
		return
	}
	am, aok := a.(map[string]any)
	bm, bok := b.(map[string]any)
	if aok && bok {
		keys := map[string]bool{}
		for k := range am {
			keys[k] = true
		}
		for k := range bm {
			keys[k] = true
		}
		var ks []string
		for k := range keys {
			ks = append(ks, k)
		}
		sort.Strings(ks)
		for _, k := range ks {
			diffJSON(path+"."+k, am[k], bm[k], out)
		}
		return
	}
	al, aok := a.([]any)
	bl, bok := b.([]any)
	if aok && bok && len(al) == len(bl) {
		for i := range al {
			diffJSON(fmt.Sprintf("%s[%d]", path, i), al[i], bl[i], out)
		}
		return
	}
	as, _ := json.Marshal(a)
	bs, _ := json.Marshal(b)
	if len(as) > 160 {
		as = as[:160]
	}
	if len(bs) > 160 {
		bs = bs[:160]
	}
	*out = append(*out, fmt.Sprintf("%s: %s != %s", path, as, bs))
}

// querySnapshot asks every module query for everything the exported state names.
func querySnapshot(n *world.Node, ctx sdk.Context, g map[string]json.RawMessage) (map[string]string, error) {
	out := map[string]string{}
	put := func(k string, m proto.Message, err error) {
		if err != nil {
			out[k] = "error: " + err.Error()
			return
		}
		bz, _ := proto.Marshal(m)
		out[k] = fmt.Sprintf("%x", bz)
	}
	cdc := n.App.AppCodec()
	rq := relayerkeeper.NewQueryServerImpl(n.App.RelayerKeeper)
	{
		r, err := rq.Relayer(ctx, &relayertypes.QueryRelayerRequest{})
		put("relayer/relayer", r, err)
		p, err := rq.Params(ctx, &relayertypes.QueryParamsRequest{})
		put("relayer/params", p, err)
		k, err := rq.Pubkeys(ctx, &relayertypes.QueryPubkeysRequest{})
		put("relayer/pubkeys", k, err)
		var rg relayertypes.GenesisState
		if err := cdc.UnmarshalJSON(g["relayer"], &rg); err != nil {
			return nil, err
		}
		for _, v := range rg.Voters {
			addr := sdk.MustBech32ifyAddressBytes("goat", v.Address)
			x, err := rq.Voter(ctx, &relayertypes.QueryVoterRequest{Address: addr})
			put("relayer/voter/"+addr, x, err)
		}
	}
	bq := bitcoinkeeper.NewQueryServerImpl(n.App.BitcoinKeeper)
	{
		p, err := bq.Params(ctx, &bitcointypes.QueryParamsRequest{})
		put("bitcoin/params", p, err)
		k, err := bq.Pubkey(ctx, &bitcointypes.QueryPubkeyRequest{})
		put("bitcoin/pubkey", k, err)
		t, err := bq.BlockTip(ctx, &bitcointypes.QueryBlockTipRequest{})
		put("bitcoin/tip", t, err)
		for _, ver := range []uint32{0, 1} {
			a, err := bq.DepositAddress(ctx, &bitcointypes.QueryDepositAddress{Version: ver, EvmAddress: "0x00000000000000000000000000000000000000aa"})
			put(fmt.Sprintf("bitcoin/depositAddress/%d", ver), a, err)
		}
		var bg bitcointypes.GenesisState
		if err := cdc.UnmarshalJSON(g["bitcoin"], &bg); err != nil {
			return nil, err
		}
		for _, w := range bg.Withdrawals {
			x, err := bq.Withdrawal(ctx, &bitcointypes.QueryWithdrawalRequest{Id: w.Id})
			put(fmt.Sprintf("bitcoin/withdrawal/%d", w.Id), x, err)
		}
		for _, d := range bg.Deposits {
			x, err := bq.HasDeposited(ctx, &bitcointypes.QueryHasDeposited{Txid: btcTxidString(d.Txid), Txout: d.Txout})
			put(fmt.Sprintf("bitcoin/hasDeposited/%x/%d", d.Txid, d.Txout), x, err)
		}
	}
	lq := lockingkeeper.NewQueryServerImpl(n.App.LockingKeeper)
	{
		p, err := lq.Params(ctx, &lockingtypes.QueryParamsRequest{})
		put("locking/params", p, err)
		var lg lockingtypes.GenesisState
		if err := cdc.UnmarshalJSON(g["locking"], &lg); err != nil {
			return nil, err
		}
		for i := 0; i < lockUniverse; i++ {
			addr := fmt.Sprintf("0x%x", valAccount(i).Addr().Bytes())
			x, err := lq.Validator(ctx, &lockingtypes.QueryValidatorRequest{Address: addr})
			put("locking/validator/"+addr, x, err)
		}
	}
	gq := goatkeeper.NewQueryServerImpl(n.App.GoatKeeper)
	{
		t, err := gq.EthBlockTip(ctx, &goatmodtypes.QueryEthBlockTipRequest{})
		put("goat/tip", t, err)
	}
	return out, nil
}

// checkExportImport exports the node's committed state, initialises a fresh
// chain from it and compares.
func checkExportImport(n *world.Node, spec world.GenesisSpec, keys map[string]world.Account, o *Outcome, continuation int) *Failure {
	e1, err := n.App.ExportAppStateAndValidators(false, nil, nil)
	if err != nil {
		return failf("export", "export-failed", "%v", err)
	}
	var g1 map[string]json.RawMessage
	if err := json.Unmarshal(e1.AppState, &g1); err != nil {
		return failf("export", "export-undecodable", "%v", err)
	}
	// interesting features of the exported state
	feats := 0
	{
		cdc := n.App.AppCodec()
		var rg relayertypes.GenesisState
		var lg lockingtypes.GenesisState
		var bg bitcointypes.GenesisState
		_ = cdc.UnmarshalJSON(g1["relayer"], &rg)
		_ = cdc.UnmarshalJSON(g1["locking"], &lg)
		_ = cdc.UnmarshalJSON(g1["bitcoin"], &bg)
		seen := map[string]bool{}
		for _, v := range rg.Voters {
			if v.Status != relayertypes.VOTER_STATUS_ACTIVATED {
				seen["voter:"+v.Status.String()] = true
			}
		}
		for _, v := range lg.Validators {
			if v.Status != lockingtypes.Active {
				seen["validator:"+v.Status.String()] = true
			}
			if v.Status == lockingtypes.Pending && v.Power == 0 {
				seen["zero-power-pending"] = true
			}
		}
		if len(lg.UnlockQueue) > 0 {
			seen["pending-unlocks"] = true
		}
		if len(lg.EthTxQueue.Rewards)+len(lg.EthTxQueue.Unlocks) > 0 {
			seen["locking-queue"] = true
		}
		if len(bg.Processing) > 0 {
			seen["processing"] = true
		}
		for _, w := range bg.Withdrawals {
			seen["withdrawal:"+w.Withdrawal.Status.String()] = true
		}
		q := bg.EthTxQueue
		if len(q.Deposits)+len(q.PaidWithdrawals)+len(q.RejectedWithdrawals) > 0 || q.BlockNumber < bg.BlockTip {
			seen["bridge-queue"] = true
		}
		feats = len(seen)
		for k := range seen {
			o.Classes = append(o.Classes, k)
		}
	}
	if feats >= 3 {
		o.NonTrivial = true
	}
	// ---- a fresh chain from the export ----
	m, err := world.NewNode(dbm.NewMemDB(), nil, 0, spec.ChainID)
	if err != nil {
		return failf("import", "new-node-failed", "%v", err)
	}
	defer m.Close()
	var reqVals []abci.ValidatorUpdate
	for _, v := range e1.Validators {
		tv := cmttypes.NewValidator(v.PubKey, v.Power)
		reqVals = append(reqVals, cmttypes.TM2PB.ValidatorUpdate(tv))
	}
	spec2 := spec
	spec2.Time = spec.Time.Add(240 * time.Hour)
	spec2.InitialHeight = e1.Height
	resp, err := m.InitChainRaw(spec.ChainID, e1.Height, spec2, e1.AppState, reqVals)
	if err != nil {
		return failf("re-import", "import-rejected/"+classifyImportError(err.Error()), "InitChain from the exported state failed: %v", err)
	}
	// initial validator set == exported active set (the SDK compared it when reqVals is non-empty; compare again explicitly)
	if updatesKey(resp.Validators) != updatesKey(reqVals) {
		return failf("validator-set", "initial-set-differs-from-exported-active-set", "InitChain returned %s, export lists %s", updatesKey(resp.Validators), updatesKey(reqVals))
	}
	// second export (module manager, on the just-initialised state) equals the first
	g2raw, err := m.App.ModuleManager.ExportGenesisForModules(m.FinalizeCtx(), m.App.AppCodec(), nil)
	if err != nil {
		return failf("re-export", "second-export-failed", "%v", err)
	}
	for _, mod := range []string{"relayer", "bitcoin", "locking", "goat", "auth"} {
		var a, b any
		_ = json.Unmarshal(g1[mod], &a)
		_ = json.Unmarshal(g2raw[mod], &b)
		a, b = normalise(a), normalise(b)
		if !reflect.DeepEqual(a, b) {
			var diffs []string
			diffJSON(mod, a, b, &diffs)
			return failf("second-export-identical", "second-export-differs/"+mod, "module %s: %v", mod, diffs)
		}
	}
	// every query answers the same
	q1, err := querySnapshot(n, n.CommittedCtx(), g1)
	if err != nil {
		return failf("queries", "query-snapshot-failed", "%v", err)
	}
	q2, err := querySnapshot(m, m.FinalizeCtx(), g1)
	if err != nil {
		return failf("queries", "query-snapshot-failed", "%v", err)
	}
	for k, v := range q1 {
		if q2[k] != v {
			return failf("queries-identical", "query-differs", "query %s answers differently on the re-imported chain", k)
		}
	}
	// derived indices and queues: the raw module stores of the re-imported chain equal the running chain's,
	// except for what the export deliberately does not carry (see the notes in the rule)
	d1 := n.DumpStores(n.CommittedCtx())
	d2 := m.DumpStores(m.FinalizeCtx())
	for _, store := range world.ModuleStores {
		a, b := filterStore(store, d1[store]), filterStore(store, d2[store])
		diff := (world.StoreDump{store: a}).Diff(world.StoreDump{store: b})
		if len(diff) > 0 {
			if len(diff) > 4 {
				diff = diff[:4]
			}
			return failf("derived-indices", "store-differs-after-import/"+store+"/"+storeDiffClass(store, diff[0]), "module store %s of the re-imported chain differs from the running chain: %v", store, diff)
		}
	}
	// the relayer's boarding queue is rebuilt from the voter records: its order is not carried, its content is
	{
		q1, err1 := n.App.RelayerKeeper.Queue.Get(n.CommittedCtx())
		q2, err2 := m.App.RelayerKeeper.Queue.Get(m.FinalizeCtx())
		if err1 != nil || err2 != nil {
			return failf("derived-indices", "boarding-queue-unreadable", "%v / %v", err1, err2)
		}
		set := func(l []string) string {
			c := append([]string{}, l...)
			sort.Strings(c)
			return fmt.Sprint(c)
		}
		if set(q1.OnBoarding) != set(q2.OnBoarding) || set(q1.OffBoarding) != set(q2.OffBoarding) {
			return failf("derived-indices", "boarding-queue-differs-after-import", "running chain: joining %v leaving %v; re-imported chain: joining %v leaving %v", q1.OnBoarding, q1.OffBoarding, q2.OnBoarding, q2.OffBoarding)
		}
	}
	// continuation: the new chain produces blocks
	if continuation > 0 {
		ch, err := world.NewChain(spec2, resp.Validators)
		if err != nil {
			return failf("continuation", "initial-validator-set-unusable", "%v", err)
		}
		s2 := &world.Sim{Spec: spec2, Chain: ch, Node: m, Keys: keys}
		for i := 0; i < continuation; i++ {
			r, err := s2.Step(world.StepOpts{DT: 5 * time.Second, Proposer: -1})
			if err != nil {
				return failf("continuation", "re-imported-chain-halts/"+classifyContinuationError(err.Error()), "block %d of the re-imported chain: %v", i, err)
			}
			if r.Resp.TxResults[0].Code != 0 {
				return failf("continuation", "re-imported-chain-eth-message-fails", "block %d of the re-imported chain: %s", i, r.Resp.TxResults[0].Log)
			}
		}
	}
	return nil
}

func classifyImportError(s string) string {
	switch {
	case containsStr(s, "invalid bls pubkey length"):
		return "pending-voter-key"
	case containsStr(s, "validator set"):
		return "validator-set-mismatch"
	case containsStr(s, "invalid deposit tax"), containsStr(s, "MaxDepositTax is too large"):
		return "deposit-tax-pair"
	}
	return "other"
}

func classifyContinuationError(s string) string {
	switch {
	case containsStr(s, "invalid zero power"):
		return "zero-total-power-at-first-block"
	case containsStr(s, "consensus engine rejects"):
		return "updates-rejected"
	}
	return "other"
}

func runExportCase(c ExportCase) Outcome {
	o := Outcome{Classes: []string{"source=" + c.Source}}
	cont := 3
	switch c.Source {
	case "locking":
		w, err := newLockWorld(c.Lock)
		if err != nil {
			o.Fail = failf("fixture", "fixture-failed", "%v", err)
			return o
		}
		defer w.close()
		stop := 1 + abs(c.Stop)%len(c.Lock.Blocks)
		for i, lb := range c.Lock.Blocks[:stop] {
			if err := w.step(i, lb); err != nil {
				o.Classes = append(o.Classes, "aborted:block-failed")
				return o
			}
			o.Evals++
		}
		o.Fail = checkExportImport(w.sim.Node, w.sim.Spec, w.sim.Keys, &o, cont)
	case "relayer":
		w, err := newRelWorld(c.Rel)
		if err != nil {
			o.Fail = failf("fixture", "fixture-failed", "%v", err)
			return o
		}
		defer w.f.close()
		stop := 1 + abs(c.Stop)%len(c.Rel.Blocks)
		for _, rb := range c.Rel.Blocks[:stop] {
			if _, _, fl := w.step(rb); fl != nil {
				o.Classes = append(o.Classes, "aborted:block-failed")
				return o
			}
			o.Evals++
		}
		o.Fail = checkExportImport(w.f.sim.Node, w.f.sim.Spec, w.f.sim.Keys, &o, cont)
	case "params":
		// bridge parameters changed by execution-layer requests, then exported
		f, err := newDepFixture(c.Par.Genesis, c.Par.Keys, c.Par.Blocks)
		if err != nil {
			o.Classes = append(o.Classes, "config-rejected-by-genesis")
			return o
		}
		defer f.close()
		stop := 1 + abs(c.Stop)%len(c.Par.Rounds)
		for _, r := range c.Par.Rounds[:stop] {
			br := goattypes.BridgeRequests{}
			for _, tx := range r.Taxes {
				br.DepositTax = append(br.DepositTax, &goattypes.DepositTaxRequest{Rate: tx.Rate, Max: tx.Max})
			}
			for _, n := range r.Confs {
				br.Confirmation = append(br.Confirmation, &goattypes.ConfirmationNumberRequest{Number: n})
			}
			for _, m := range r.Mins {
				br.MinDeposit = append(br.MinDeposit, &goattypes.MinDepositRequest{Satoshi: m})
			}
			res, err := f.sim.Step(world.StepOpts{DT: 5 * time.Second, Proposer: -1, Eth: world.EthBlockOpts{Plan: world.BuildPlan{Requests: br.Encode()}}})
			if err != nil || res.Resp.TxResults[0].Code != 0 {
				o.Classes = append(o.Classes, "aborted:block-failed")
				return o
			}
			o.Evals++
		}
		o.Fail = checkExportImport(f.sim.Node, f.sim.Spec, f.sim.Keys, &o, cont)
		o.NonTrivial = true
	default:
		w, err := newWdWorld(c.Wd)
		if err != nil {
			o.Fail = failf("fixture", "fixture-failed", "%v", err)
			return o
		}
		defer w.f.close()
		stop := 1 + abs(c.Stop)%len(c.Wd.Blocks)
		var scratch Outcome
		for i, b := range c.Wd.Blocks[:stop] {
			if fl := w.step(i, b, &scratch); fl != nil {
				o.Classes = append(o.Classes, "aborted:history-failed")
				return o
			}
			o.Evals++
		}
		o.Fail = checkExportImport(w.f.sim.Node, w.f.sim.Spec, w.f.sim.Keys, &o, cont)
	}
	return o
}

func genExportCase(t *rapid.T) ExportCase {
	c := ExportCase{Source: rapid.SampledFrom([]string{"locking", "locking", "locking", "relayer", "relayer", "relayer", "withdrawals", "withdrawals", "params"}).Draw(t, "source"), Stop: rapid.IntRange(0, 60).Draw(t, "stop")}
	switch c.Source {
	case "locking":
		c.Lock = genLockCase("C18", 30)(t)
	case "relayer":
		c.Rel = genRelCase("C16")(t)
	case "params":
		c.Par = genParamCase(t)
		// mostly pairs that genesis validation accepts as well (rate 1..9999 with cap 1..1e8, or 0/0)
		for i := range c.Par.Rounds {
			for j := range c.Par.Rounds[i].Taxes {
				if rapid.IntRange(0, 3).Draw(t, "importable") > 0 {
					c.Par.Rounds[i].Taxes[j] = TaxReq{Rate: rapid.SampledFrom([]uint64{1, 20, 9999}).Draw(t, "okRate"), Max: rapid.SampledFrom([]uint64{1, 1000, 100_000_000}).Draw(t, "okMax")}
				}
			}
		}
	default:
		c.Wd = genWdCase(t)
	}
	return c
}

func TestC18_ExportImport(t *testing.T) {
	RunProp(t, Prop[ExportCase]{
		ID: "C18", Name: "export-import", Quick: 640, Thor: 10_000,
		Gen: genExportCase, Run: runExportCase,
		Rule: "a history in the locking world (validators pending/active/downgraded/tombstoned/inactive incl. zero-power ones, pending and matured unlocks, claims queued), the relayer world (pending, on-boarding and off-boarding voters, consumed sequences) the bridge parameters after execution-layer tax / confirmation / minimum-deposit requests, or the withdrawal world (pending/canceling/processing/paid/cancelled withdrawals, processing batches with fee-bumped candidates, refund/paid queues, voted hashes not yet handed over) is stopped at a generated block; ExportAppStateAndValidators E1; a fresh application is initialised with E1's state, validators, height and the consensus parameters (must succeed; the SDK compares requested and returned validators); the module manager's export of the just-initialised state must equal E1 module by module (null/[]/absent normalised); every module query over every key named in E1 answers identically; the raw module stores are equal (except zero-power ranking entries and the order of the relayer's boarding queue, whose content is compared as sets); and, reported as a separate clause, the new chain must run 3 blocks from the exported height with the empty last commit CometBFT supplies and with validator updates acceptable to a CometBFT set seeded from InitChain; non-trivial = the exported state shows >= 3 of the listed interesting features; evaluations count history blocks",
	})
}

// filterStore drops entries that an export/import legitimately does not reproduce byte for byte:
//   - locking power-ranking entries with power 0 (never eligible; the running chain keeps or drops them depending on the path),
//   - the relayer's on/off-boarding queue item (rebuilt from the voter records; its order is not exported).
func filterStore(store string, m map[string]string) map[string]string {
	out := map[string]string{}
	for k, v := range m {
		if store == "locking" && len(k) >= 9 && k[0] == 2 && k[1:9] == string(make([]byte, 8)) {
			continue
		}
		if store == "relayer" && len(k) >= 1 && k[0] == 5 {
			continue
		}
		out[k] = v
	}
	return out
}

func storeDiffClass(store, first string) string {
	if store == "locking" {
		// "locking/<hexkey>: ..." - the first key byte is the collection prefix
		i := len("locking/")
		if len(first) > i+2 {
			switch first[i : i+2] {
			case "01":
				return "locking-index"
			case "02":
				return "power-ranking"
			case "03":
				return "validator-set"
			}
		}
	}
	return "other"
}
