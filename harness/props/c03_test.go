package props

// C03 — deposits: SPV-proven, script-bound, matured, credited at most once, value-exact.

import (
	"encoding/hex"
	"fmt"
	"github.com/ethereum/go-ethereum/core/types/goattypes"
	"testing"
	"time"

	sdk "github.com/cosmos/cosmos-sdk/types"
	bitcoinkeeper "github.com/goatnetwork/goat/x/bitcoin/keeper"
	bitcointypes "github.com/goatnetwork/goat/x/bitcoin/types"
	"pgregory.net/rapid"
	"verif/harness/world"
)

// DepositCase: a parameter set, registered keys, model blocks and attempts.
type DepositCase struct {
	Params DepParams  `json:"params"`
	Keys   []KeySpec  `json:"keys"`
	Blocks []DepBlock `json:"blocks"`
	Steps  []DepStep  `json:"steps"`
	// app level only
	Batches []DepBatch `json:"batches,omitempty"`
	// Phantom > 0 (app level): the history ends with a rolled-back vote: one transaction carries a quorum vote for hash X
	// at tip+1 and a deposit batch against X whose last item fails, so the whole transaction fails; then hash Y is
	// voted for tip+1. A deposit proven against X must be refused, one proven against Y credited.
	Phantom int `json:"phantom,omitempty"`
}

// DepBatch is one MsgNewDeposits transaction at app level.
type DepBatch struct {
	Items   []DepStep `json:"items"`
	Restart bool      `json:"restart"`
	// Reimport: after this batch's block the chain is restarted from its exported state
	Reimport bool `json:"reimport,omitempty"`
	// Tax: before this batch the execution layer requests another deposit tax (rate in basis points, cap); everything
	// credited so far is handed over first, and the batch is judged under the parameters the chain then reports
	Tax     *TaxReq `json:"tax,omitempty"`
	SameBlk bool    `json:"same_block"` // deliver in the same consensus block as the previous batch
}

var depthChoices = []int{0, 1, 2, 3, 50, 97, 98, 99, 100, 101, 102, 120, 129}
var treeSizes = []int{1, 1, 2, 2, 3, 4, 5, 7, 8, 9, 16, 17, 33}

func genDepParams(t *rapid.T) DepParams {
	p := DepParams{
		MinDep: rapid.SampledFrom([]uint64{1000, 1001, 10_000, 20_000, 50_000}).Draw(t, "min"),
		Magic:  []byte("GTT0"),
	}
	if rapid.IntRange(0, 3).Draw(t, "taxed") > 0 {
		p.Rate = rapid.SampledFrom([]uint64{1, 2, 25, 100, 5000, 9999, 10_000}).Draw(t, "rate")
		p.MaxTax = rapid.SampledFrom([]uint64{1, 500, 30_000, 100_000_000}).Draw(t, "cap")
	}
	return p
}

func genDepValue(t *rapid.T, p DepParams) uint64 {
	return rapid.SampledFrom([]uint64{
		p.MinDep - 1, p.MinDep, p.MinDep + 1, 999, 1000, 9_999, 10_000, 10_001, 19_999, 20_000, 20_001, 30_000, 123_456_789,
		1_000_000, 100_000_000, 2_100_000_000_000_000,
	}).Draw(t, "value")
}

func genDepBlocks(t *rapid.T, p DepParams, keys []KeySpec, n int, validBias bool) []DepBlock {
	nkeys := len(keys)
	depths := rapid.Permutation(depthChoices).Draw(t, "depths")
	var out []DepBlock
	for i := 0; i < n && i < len(depths); i++ {
		b := DepBlock{
			Depth:   depths[i],
			NTx:     rapid.SampledFrom(treeSizes).Draw(t, "ntx"),
			Version: rapid.IntRange(0, 1).Draw(t, "version"),
			Key:     rapid.IntRange(0, nkeys-1).Draw(t, "key"),
			EvmSeed: rapid.IntRange(0, 1<<20).Draw(t, "evm"),
			Value:   genDepValue(t, p),
			OutIdx:  rapid.IntRange(0, 2).Draw(t, "outIdx"),
			Pad:     rapid.IntRange(0, 2).Draw(t, "pad"),
		}
		b.Pos = rapid.IntRange(0, b.NTx-1).Draw(t, "pos")
		if rapid.IntRange(0, 3).Draw(t, "coinbase") == 0 {
			b.Pos = 0
		}
		if rapid.IntRange(0, 11).Draw(t, "unregistered") == 0 {
			b.Key = -1 - rapid.IntRange(0, 5).Draw(t, "strangerKey")
		}
		if i > 0 && rapid.IntRange(0, 5).Draw(t, "copyRoll") == 0 {
			b.CopyOf = 1 + rapid.IntRange(0, i-1).Draw(t, "copyOf") // the same transaction mined in two voted blocks
		}
		if rapid.IntRange(0, 5).Draw(t, "lastOdd") == 0 {
			b.NTx = rapid.SampledFrom([]int{3, 5, 7, 9, 17}).Draw(t, "oddN")
			b.Pos = b.NTx - 1 // last leaf of an odd level: it has a mirror position
		}
		if validBias && rapid.IntRange(0, 9).Draw(t, "forceValid") > 0 {
			// steer towards an acceptable deposit so that histories credit something
			if b.Key < 0 {
				b.Key = 0
			}
			if keys[b.Key%nkeys].Schnorr {
				b.Version = 0
			}
			if b.Value < p.MinDep {
				b.Value = p.MinDep + uint64(b.EvmSeed%5000)
			}
			if b.Pos == 0 && b.Depth < 100 && b.NTx > 1 {
				b.Pos = 1
			} else if b.Pos == 0 && b.Depth < 100 {
				b.NTx, b.Pos = 2, 1
			}
		}
		out = append(out, b)
	}
	return out
}

func genKeys(t *rapid.T) []KeySpec {
	n := rapid.IntRange(1, 3).Draw(t, "nkeys")
	var ks []KeySpec
	for i := 0; i < n; i++ {
		ks = append(ks, KeySpec{Idx: i, Schnorr: rapid.Bool().Draw(t, "schnorr")})
	}
	return ks
}

func genDepStep(t *rapid.T, nblocks int) DepStep {
	mut := 0
	if rapid.IntRange(0, 3).Draw(t, "mutate") > 0 {
		mut = rapid.IntRange(1, numDepMuts-1).Draw(t, "mut")
	}
	return DepStep{Block: rapid.IntRange(0, nblocks-1).Draw(t, "block"), Mut: mut, Arg: rapid.IntRange(0, 1<<20).Draw(t, "arg")}
}

func genDepositCase(t *rapid.T) DepositCase {
	c := DepositCase{Params: genDepParams(t), Keys: genKeys(t)}
	c.Blocks = genDepBlocks(t, c.Params, c.Keys, rapid.IntRange(1, 6).Draw(t, "nblocks"), rapid.Bool().Draw(t, "validBias"))
	n := rapid.IntRange(1, 40).Draw(t, "nsteps")
	for i := 0; i < n; i++ {
		c.Steps = append(c.Steps, genDepStep(t, len(c.Blocks)))
	}
	return c
}

func callNewDeposits(n *world.Node, ctx sdk.Context, msg *bitcointypes.MsgNewDeposits) (err error) {
	defer func() {
		if r := recover(); r != nil {
			err = fmt.Errorf("panic: %v", r)
		}
	}()
	_, err = bitcoinkeeper.NewMsgServerImpl(n.App.BitcoinKeeper).NewDeposits(ctx, msg)
	return err
}

func depSignature(v verdict, why string) string {
	if v == vAccept {
		return "valid-deposit-rejected"
	}
	return "accepted/" + why
}

// configRejected reports whether genesis refused the parameter set (then the
// case says nothing about deposits).
func runDepositHandler(c DepositCase) Outcome {
	o := Outcome{Classes: []string{fmt.Sprintf("rate=%d", c.Params.Rate)}}
	f, err := newDepFixture(c.Params, c.Keys, c.Blocks)
	if err != nil {
		if c.Params.Rate < 10_000 {
			o.Fail = failf("fixture", "fixture-failed", "%v", err)
			return o
		}
		// a tax rate of 100% is (since the fix) refused at genesis: nothing to check
		o.Classes = append(o.Classes, "config-rejected-by-genesis")
		return o
	}
	defer f.close()
	for i, st := range c.Steps {
		msg, b, v, why := f.buildAttempt(st)
		ctx, _ := f.sim.Node.CommittedCtx().CacheContext()
		herr := callNewDeposits(f.sim.Node, ctx, msg)
		o.Evals++
		mutName := depMutNames[st.Mut%numDepMuts]
		o.Classes = append(o.Classes, mutName)
		// non-trivial: passes stateless validation and is decided by SPV/script/maturity/duplicate/tax logic
		if herr == nil || !isStatelessRejection(herr) {
			o.NonTrivial = true
		}
		if v == vUnspecified {
			o.Classes = append(o.Classes, "unspecified")
			continue
		}
		accepted := herr == nil
		if accepted != (v == vAccept) {
			o.Fail = failf("deposit-acceptance", depSignature(v, why), "step %d (%s, block depth %d, pos %d/%d, v%d, value %d): accepted=%v (err=%v), oracle: %v (%s)",
				i, mutName, b.spec.Depth, b.pos, b.blk.Tree.N(), b.spec.Version, b.spec.Value, accepted, herr, v == vAccept, why)
			return o
		}
		if !accepted {
			continue
		}
		o.Classes = append(o.Classes, "accepted")
		// what the execution layer would be handed
		raws, err := f.sim.Node.App.GoatKeeper.Dequeue(ctx)
		if err != nil {
			o.Fail = failf("hand-over", "dequeue-failed", "%v", err)
			return o
		}
		deps, err := decodeDeposits(raws)
		if err != nil || len(deps) != 1 {
			o.Fail = failf("hand-over", "deposit-not-queued", "accepted deposit produced %d deposit system txs (err %v)", len(deps), err)
			return o
		}
		if fl := checkReceipt(deps[0], b, f.params); fl != nil {
			o.Fail = fl
			return o
		}
		// credited at most once: the same deposit again, on top of the state that credited it
		if err2 := callNewDeposits(f.sim.Node, ctx, msg); err2 == nil {
			o.Fail = failf("credited-once", "credited-twice", "step %d: the same (txid, output) was credited twice", i)
			return o
		}
		var has bitcointypes.QueryHasDepositedResponse
		q := bitcoinkeeper.NewQueryServerImpl(f.sim.Node.App.BitcoinKeeper)
		r, qerr := q.HasDeposited(ctx, &bitcointypes.QueryHasDeposited{Txid: btcTxidString(world.DSha(b.blk.Raw[b.pos])), Txout: b.outIdx})
		if qerr != nil || r == nil || !r.Yes {
			o.Fail = failf("credited-once", "credited-not-recorded", "HasDeposited does not report the credited output (%v)", qerr)
			return o
		}
		_ = has
	}
	return o
}

// btcTxidString renders a txid the way Bitcoin does (byte-reversed hex).
func btcTxidString(h []byte) string {
	r := make([]byte, len(h))
	for i := range h {
		r[i] = h[len(h)-1-i]
	}
	return hex.EncodeToString(r)
}

func isStatelessRejection(err error) bool {
	s := err.Error()
	for _, m := range []string{"invalid deposit list length", "invalid block headers list size", "nil item", "invalid raw header length", "duplicate height", "invalid evm address", "invalid btc tx size"} {
		if containsStr(s, m) {
			return true
		}
	}
	return false
}

func containsStr(s, sub string) bool {
	return len(sub) <= len(s) && (func() bool {
		for i := 0; i+len(sub) <= len(s); i++ {
			if s[i:i+len(sub)] == sub {
				return true
			}
		}
		return false
	})()
}

func TestC03_Handler(t *testing.T) {
	RunProp(t, Prop[DepositCase]{
		ID: "C03", Name: "handler", Quick: 2400, Thor: 40_000,
		Gen: genDepositCase, Run: runDepositHandler,
		Rule: "per case: bridge parameters (rate 0..10000, cap, minimum), 1-3 registered keys (ECDSA/Schnorr), up to 6 model Bitcoin blocks (1..33 txs, deposit tx at any position incl. coinbase, depth 0..129 below the voted tip, v0/v1, boundary values) voted through genesis, then up to 40 deposit attempts each with one mutation from a 19-entry catalogue (header, tx bytes, output index, version, EVM address, key, proof, claimed position incl. neighbours/aliases/random, duplicates) given to the registered NewDeposits handler; oracle = deposit oracle computed from the model (accept/reject/unspecified), receipt identity amount+tax=value with the integer tax formula, tax<value, second credit rejected, HasDeposited; non-trivial = attempt passes stateless validation; evaluations count attempts",
	})
}

// ---- app level: batches as transactions, histories, restarts ----

func genDepositHistory(t *rapid.T) DepositCase {
	c := DepositCase{Params: genDepParams(t), Keys: genKeys(t)}
	c.Blocks = genDepBlocks(t, c.Params, c.Keys, rapid.IntRange(2, 10).Draw(t, "nblocks"), true)
	nb := rapid.IntRange(2, 8).Draw(t, "nbatches")
	for i := 0; i < nb; i++ {
		b := DepBatch{Restart: rapid.IntRange(0, 5).Draw(t, "restart") == 0, SameBlk: rapid.IntRange(0, 3).Draw(t, "sameBlock") == 0}
		k := rapid.SampledFrom([]int{1, 1, 2, 3, 5, 9, 16}).Draw(t, "items")
		for j := 0; j < k; j++ {
			st := genDepStep(t, len(c.Blocks))
			if rapid.IntRange(0, 7).Draw(t, "plain") > 0 {
				st.Mut = 0
			}
			if st.Mut == mutDupInBatch || st.Mut == mutHeaderDup || st.Mut == mutCoinbaseLater || st.Mut == mutTwinBadProof {
				st.Mut = 0 // batch-level duplicates arise naturally from repeated items
			}
			b.Items = append(b.Items, st)
		}
		c.Batches = append(c.Batches, b)
	}
	for i := range c.Batches {
		c.Batches[i].Reimport = rapid.IntRange(0, 7).Draw(t, "reimport") == 0
	}
	// a third of the histories get a "key confusion" batch: a deposit to a registered key directly followed by a
	// deposit to an unregistered key of the same type (the batch must fail)
	if rapid.IntRange(0, 2).Draw(t, "keyConfusion") == 0 {
		j := rapid.IntRange(0, len(c.Blocks)-1).Draw(t, "kcBlock")
		orig := c.Blocks[j]
		if orig.Key >= 0 && orig.CopyOf == 0 && len(c.Keys) > 0 {
			used := map[int]bool{}
			for _, b := range c.Blocks {
				used[b.Depth] = true
			}
			depth := -1
			for d := 1; d < 120; d++ {
				if !used[d] {
					depth = d
					break
				}
			}
			if depth > 0 {
				clone := orig
				clone.Depth, clone.Version, clone.Key, clone.CopyOf = depth, 0, -1-rapid.IntRange(0, 20).Draw(t, "kcKey"), 0
				if clone.NTx < 2 {
					clone.NTx = 2
				}
				clone.Pos = 1
				// an unregistered key is a Schnorr key iff version 0 and an even EVM seed (see buildDepBlockReusing)
				clone.EvmSeed = orig.EvmSeed &^ 1
				if !c.Keys[orig.Key%len(c.Keys)].Schnorr {
					clone.EvmSeed |= 1
				}
				c.Blocks = append(c.Blocks, clone)
				at := rapid.IntRange(0, len(c.Batches)).Draw(t, "kcAt")
				b := DepBatch{Items: []DepStep{{Block: j}, {Block: len(c.Blocks) - 1}}}
				c.Batches = append(c.Batches[:at:at], append([]DepBatch{b}, c.Batches[at:]...)...)
			}
		}
	}
	for i := range c.Batches {
		if rapid.IntRange(0, 5).Draw(t, "taxRoll") == 0 {
			c.Batches[i].Tax = &TaxReq{Rate: rapid.SampledFrom([]uint64{0, 20, 9999, 10_000, 10_000, 10_001, 1 << 32}).Draw(t, "taxRate"), Max: rapid.SampledFrom([]uint64{0, 0, 1, 1 << 40}).Draw(t, "taxMax")}
		}
	}
	if rapid.IntRange(0, 2).Draw(t, "phantomRoll") == 0 {
		c.Phantom = rapid.IntRange(1, 12).Draw(t, "phantom")
	}
	return c
}

// runDepositHistory: batches of deposits as real transactions.  A batch is
// expected to succeed iff every item is acceptable on the state left by the
// previous batches and no (txid, output) repeats inside it.
func runDepositHistory(c DepositCase) Outcome {
	o := Outcome{Classes: []string{fmt.Sprintf("rate=%d", c.Params.Rate)}}
	f, err := newDepFixture(c.Params, c.Keys, c.Blocks)
	if err != nil {
		if c.Params.Rate < 10_000 {
			o.Fail = failf("fixture", "fixture-failed", "%v", err)
			return o
		}
		// a tax rate of 100% is (since the fix) refused at genesis: nothing to check
		o.Classes = append(o.Classes, "config-rejected-by-genesis")
		return o
	}
	defer func() { f.close() }()
	prop, propAddr := f.proposer()
	credited := map[string]*builtDepBlock{} // txid:vout -> block (model)
	var creditOrder []string
	delivered := map[string]int{}
	var deliveredOrder []string
	observe := func(raws [][]byte) *Failure {
		deps, err := decodeDeposits(raws)
		if err != nil {
			return failf("hand-over", "undecodable-system-tx", "%v", err)
		}
		for _, d := range deps {
			k := fmt.Sprintf("%x:%d", d.Txid[:], d.TxOut)
			delivered[k]++
			deliveredOrder = append(deliveredOrder, k)
			if delivered[k] > 1 {
				return failf("credited-once", "credited-twice", "deposit %s handed to the execution layer twice", k)
			}
			b, ok := credited[k]
			if !ok {
				return failf("credited-only-if-valid", "credit-without-accepted-deposit", "execution layer was handed a deposit %s the model never accepted", k)
			}
			if fl := checkReceipt(d, b, f.params); fl != nil {
				return fl
			}
		}
		return nil
	}
	var pendingTxs [][]byte
	var pendingExpect []bool
	var bump uint64
	flush := func() *Failure {
		blk, txs, err := f.sim.Begin(world.StepOpts{DT: 5 * time.Second, Proposer: -1, Txs: pendingTxs})
		if err != nil {
			return failf("block-processing", "begin-failed", "%v", err)
		}
		r, err := f.sim.Exec(blk, txs, false)
		if err != nil {
			return failf("block-processing", "block-failed", "%v", err)
		}
		// system txs handed over in this block's payload
		_, m, _ := decodeEthBlockTx(f.sim.Node, txs[0])
		if m != nil {
			n := int(m.Payload.ExtraData[0])
			if fl := observe(m.Payload.Transactions[:n]); fl != nil {
				return fl
			}
		}
		for i := range pendingTxs {
			res := r.Resp.TxResults[1+i]
			if (res.Code == 0) != pendingExpect[i] {
				return failf("deposit-acceptance", map[bool]string{true: "valid-batch-rejected", false: "accepted/invalid-batch"}[pendingExpect[i]],
					"batch %d in block %d: code=%d log=%q, model expects success=%v", i, blk.Height, res.Code, res.Log, pendingExpect[i])
			}
		}
		pendingTxs, pendingExpect, bump = nil, nil, 0
		return nil
	}
	for bi, batch := range c.Batches {
		if batch.Tax != nil {
			// hand over what is owed under the old parameters, then change them
			if fl := flush(); fl != nil {
				o.Fail = fl
				return o
			}
			for i := 0; i < 40 && len(deliveredOrder) < len(creditOrder); i++ {
				if fl := flush(); fl != nil {
					o.Fail = fl
					return o
				}
			}
			br := goattypes.BridgeRequests{DepositTax: []*goattypes.DepositTaxRequest{{Rate: batch.Tax.Rate, Max: batch.Tax.Max}}}
			r, err := f.sim.Step(world.StepOpts{DT: 5 * time.Second, Proposer: -1, Eth: world.EthBlockOpts{Plan: world.BuildPlan{Requests: br.Encode()}}})
			if err != nil || r.Resp.TxResults[0].Code != 0 {
				o.Fail = failf("block-processing", "block-failed", "tax request before batch %d: %v", bi, err)
				return o
			}
			var pr bitcointypes.QueryParamsResponse
			if err := f.sim.Node.Query("/goat.bitcoin.v1.Query/Params", &bitcointypes.QueryParamsRequest{}, &pr); err != nil {
				o.Fail = failf("query", "query-failed", "%v", err)
				return o
			}
			f.params.Rate, f.params.MaxTax = pr.Params.DepositTaxRate, pr.Params.MaxDepositTax
			o.Classes = append(o.Classes, fmt.Sprintf("tax-request/rate=%d", batch.Tax.Rate))
		}
		msg := &bitcointypes.MsgNewDeposits{Proposer: propAddr}
		headers := map[uint64]bool{}
		expect := true
		unspecified := false
		inBatch := map[string]bool{}
		var adds []string
		addBlk := map[string]*builtDepBlock{}
		for _, it := range batch.Items {
			if len(msg.Deposits) >= 16 {
				break
			}
			switch it.Mut % numDepMuts {
			case mutDupInBatch, mutHeaderDup, mutDupMirror, mutDupOtherBlock, mutCoinbaseLater, mutTwinBadProof:
				it.Mut = 0 // batch-level duplicates arise from repeated items and copied blocks
			}
			single, b, v, _ := f.buildAttempt(it)
			d := single.Deposits[0]
			h := single.BlockHeaders[0]
			if !headers[h.Height] {
				headers[h.Height] = true
				msg.BlockHeaders = append(msg.BlockHeaders, h)
			} else if it.Mut%numDepMuts == mutHeaderOtherHeight || it.Mut%numDepMuts == mutHeaderBitFlip || it.Mut%numDepMuts == mutHeaderMissing || it.Mut%numDepMuts == mutBlockNumberOther {
				// a header for this height is already in the batch; the mutation cannot be expressed
				d = b.deposit()
				v = vReject
				if ok, _ := b.validity(f.keys, f.params); ok {
					v = vAccept
				}
				if !headers[b.height] {
					headers[b.height] = true
					msg.BlockHeaders = append(msg.BlockHeaders, b.header())
				}
			}
			msg.Deposits = append(msg.Deposits, d)
			key := fmt.Sprintf("%x:%d", world.DSha(b.blk.Raw[b.pos]), b.outIdx)
			switch v {
			case vUnspecified:
				unspecified = true
			case vReject:
				expect = false
			case vAccept:
				if _, done := credited[key]; done || inBatch[key] {
					expect = false
				}
				inBatch[key] = true
				adds = append(adds, key)
				addBlk[key] = b
				o.NonTrivial = true
			}
		}
		if unspecified {
			o.Classes = append(o.Classes, "batch-unspecified")
			continue
		}
		// several txs of the proposer in one block need consecutive sequences
		if !batch.SameBlk && len(pendingTxs) > 0 {
			if fl := flush(); fl != nil {
				o.Fail = fl
				return o
			}
		}
		raw, err := f.sim.Node.Tx(prop, bump, world.TxOpts{}, msg)
		if err != nil {
			o.Fail = failf("fixture", "tx-build-failed", "%v", err)
			return o
		}
		bump++
		pendingTxs = append(pendingTxs, raw)
		pendingExpect = append(pendingExpect, expect)
		if expect {
			for _, k := range adds {
				credited[k] = addBlk[k]
				creditOrder = append(creditOrder, k)
			}
			o.Classes = append(o.Classes, fmt.Sprintf("batch-ok-%d", len(adds)))
		} else {
			o.Classes = append(o.Classes, "batch-fails")
		}
		o.Evals++
		if batch.Restart {
			if fl := flush(); fl != nil {
				o.Fail = fl
				return o
			}
			n2, err := f.sim.Node.Restart()
			if err != nil {
				o.Fail = failf("restart", "restart-failed", "batch %d: %v", bi, err)
				return o
			}
			f.sim.Node = n2
			o.Classes = append(o.Classes, "restart")
		}
		if batch.Reimport && !genesisAcceptsTax(f.params) {
			// known finding (C18): the run-time accepts tax settings that genesis validation refuses, so this state cannot
			// be re-imported; the restart is left out here and the finding is demonstrated under C18
			o.Classes = append(o.Classes, "reimport-skipped:tax-pair-not-importable")
		} else if batch.Reimport {
			if fl := flush(); fl != nil {
				o.Fail = fl
				return o
			}
			if err := f.sim.Reimport(); err != nil {
				o.Fail = failf("re-import", "re-import-failed", "batch %d: %v", bi, err)
				return o
			}
			o.Classes = append(o.Classes, "reimported")
		}
	}
	if len(pendingTxs) > 0 {
		if fl := flush(); fl != nil {
			o.Fail = fl
			return o
		}
	}
	if c.Phantom > 0 {
		value := uint64(50_000)
		if c.Params.MinDep > value {
			value = c.Params.MinDep
		}
		mk := func(seed int) *builtDepBlock {
			return buildDepBlock(DepBlock{Depth: -1, NTx: 2 + c.Phantom%3, Pos: 1, Version: 0, Key: 0, EvmSeed: seed, Value: value, OutIdx: c.Phantom % 2}, c.Keys, c.Params.Magic)
		}
		sBlk, rBlk := mk(9000+c.Phantom), mk(9500+c.Phantom)
		okS, _ := sBlk.validity(f.keys, f.params)
		okR, _ := rBlk.validity(f.keys, f.params)
		if okS && okR && value < 1<<40 {
			vf := &voteFixture{sim: f.sim, n: 2, btcKey: c.Keys[len(c.Keys)-1].key()}
			vote := func(b *builtDepBlock) (sdk.Msg, *Failure) {
				rv, err := f.sim.Node.RelayerView()
				if err != nil {
					return nil, failf("query", "query-failed", "%v", err)
				}
				m, err := vf.honestMsg(voteBody{kind: kindHashes, start: depTip + 1, hashes: [][]byte{b.blk.Hash}}, rv)
				if err != nil {
					return nil, failf("fixture", "vote-build-failed", "%v", err)
				}
				return m, nil
			}
			deps := func(b *builtDepBlock, n int) *bitcointypes.MsgNewDeposits {
				m := &bitcointypes.MsgNewDeposits{Proposer: propAddr, BlockHeaders: []*bitcointypes.BlockHeader{b.header()}}
				for i := 0; i < n; i++ {
					m.Deposits = append(m.Deposits, b.deposit())
				}
				return m
			}
			oneTx := func(what string, want bool, sig string, msgs ...sdk.Msg) *Failure {
				raw, err := f.sim.Node.Tx(prop, 0, world.TxOpts{}, msgs...)
				if err != nil {
					return failf("fixture", "tx-build-failed", "%v", err)
				}
				pendingTxs, pendingExpect = [][]byte{raw}, []bool{want}
				blk, txs, err := f.sim.Begin(world.StepOpts{DT: 5 * time.Second, Proposer: -1, Txs: pendingTxs})
				if err != nil {
					return failf("block-processing", "begin-failed", "%v", err)
				}
				r, err := f.sim.Exec(blk, txs, false)
				if err != nil {
					return failf("block-processing", "block-failed", "%v", err)
				}
				if _, m, _ := decodeEthBlockTx(f.sim.Node, txs[0]); m != nil {
					if fl := observe(m.Payload.Transactions[:int(m.Payload.ExtraData[0])]); fl != nil {
						return fl
					}
				}
				pendingTxs, pendingExpect = nil, nil
				if res := r.Resp.TxResults[1]; (res.Code == 0) != want {
					return failf("deposit-acceptance", sig, "rolled-back vote episode, %s: code=%d log=%q, expected success=%v", what, res.Code, res.Log, want)
				}
				return nil
			}
			vS, fl := vote(sBlk)
			if fl == nil {
				// the same deposit twice: the second item fails after the first was verified against X
				fl = oneTx("vote for X + deposits against X with a failing item in one transaction", false, "accepted/invalid-batch", vS, deps(sBlk, 2))
			}
			var vR sdk.Msg
			if fl == nil {
				vR, fl = vote(rBlk)
			}
			if fl == nil {
				fl = oneTx("vote for Y at the same height", true, "vote-after-rolled-back-vote-refused", vR)
			}
			if fl == nil {
				fl = oneTx("deposit proven against X, a hash that was never voted", false, "accepted/header-of-a-hash-never-voted", deps(sBlk, 1))
			}
			if fl == nil {
				fl = oneTx("deposit proven against the voted hash Y", true, "valid-batch-rejected", deps(rBlk, 1))
				if fl == nil {
					k := fmt.Sprintf("%x:%d", world.DSha(rBlk.blk.Raw[rBlk.pos]), rBlk.outIdx)
					credited[k] = rBlk
					creditOrder = append(creditOrder, k)
				}
			}
			if fl != nil {
				o.Fail = fl
				return o
			}
			o.Classes = append(o.Classes, "rolled-back-vote-episode")
		}
	}
	// drain: empty blocks until everything owed has been handed over
	for i := 0; i < 8 && len(deliveredOrder) < len(creditOrder); i++ {
		if fl := flush(); fl != nil {
			o.Fail = fl
			return o
		}
	}
	if len(deliveredOrder) != len(creditOrder) {
		o.Fail = failf("hand-over", "credited-deposit-not-delivered", "model credited %d deposits, execution layer received %d", len(creditOrder), len(deliveredOrder))
		return o
	}
	for i := range creditOrder {
		if creditOrder[i] != deliveredOrder[i] {
			o.Fail = failf("hand-over", "deposit-order", "deposit %d: credited %s, delivered %s", i, creditOrder[i], deliveredOrder[i])
			return o
		}
	}
	// HasDeposited agrees with the model on every model block
	for _, b := range f.blocks {
		var resp bitcointypes.QueryHasDepositedResponse
		k := fmt.Sprintf("%x:%d", world.DSha(b.blk.Raw[b.pos]), b.outIdx)
		err := f.sim.Node.Query("/goat.bitcoin.v1.Query/HasDeposited", &bitcointypes.QueryHasDeposited{Txid: btcTxidString(world.DSha(b.blk.Raw[b.pos])), Txout: b.outIdx}, &resp)
		if err != nil {
			o.Fail = failf("query", "query-failed", "%v", err)
			return o
		}
		if _, want := credited[k]; want != resp.Yes {
			o.Fail = failf("credited-set", "has-deposited-disagrees", "HasDeposited(%s)=%v, model=%v", k, resp.Yes, want)
			return o
		}
	}
	return o
}

func TestC03_History(t *testing.T) {
	RunProp(t, Prop[DepositCase]{
		ID: "C03", Name: "history", Quick: 640, Thor: 10_000,
		Gen: genDepositHistory, Run: runDepositHistory,
		Rule: "histories of 2-8 MsgNewDeposits transactions (1-16 items each, repeated items, mutated items, several batches per consensus block, process restarts and restarts from an exported state between blocks, execution-layer tax requests with rates around 100% between batches) through FinalizeBlock; model: a batch succeeds iff every item is acceptable and no (txid, output) was credited before or repeats inside it; every deposit system transaction found in later execution payloads must have been credited by the model exactly once, in order, with amount+tax=value and the tax formula; HasDeposited equals the model set; a third of the histories end with a rolled-back vote (one transaction votes hash X for tip+1 and carries deposits against X of which the last fails; then Y is voted: a deposit proven against X must be refused, one against Y credited); non-trivial = history contains an acceptable item",
	})
}


// genesisAcceptsTax mirrors the rule of bitcoin Params.Validate for the (rate, cap) pair.
func genesisAcceptsTax(p DepParams) bool {
	if p.Rate > 0 {
		return p.MaxTax > 0 && p.Rate < 10_000 && p.MaxTax <= 100_000_000
	}
	return p.MaxTax == 0
}
