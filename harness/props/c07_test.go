package props

// C07 — the state transition is deterministic across replicas, re-execution and restart.

import (
	"bytes"
	"fmt"
	"github.com/ethereum/go-ethereum/common"
	"github.com/ethereum/go-ethereum/core/types/goattypes"
	"os"
	"path/filepath"
	"runtime"
	"sort"
	"testing"
	"time"

	abci "github.com/cometbft/cometbft/abci/types"
	dbm "github.com/cosmos/cosmos-db"
	"pgregory.net/rapid"
	"verif/harness/world"
)

// DetCase: a kitchen-sink locking-world history plus, per block, how the replicas execute it.
type DetCase struct {
	Lock     LockCase `json:"lock"`
	Replicas int      `json:"replicas"` // 1..2 extra replicas
	Modes    []int    `json:"modes"`    // per block: 0 plain, 1 restart between FinalizeBlock and Commit, 2 GOMAXPROCS 1, 3 GOMAXPROCS 4, 4 restart before the block, 5 the replica's engine answers after 1.5 s
	OnDisk   bool     `json:"on_disk"`  // replica 0 keeps its state in an on-disk goleveldb
	// Exodus: after the history one more block is executed (not committed) in which every validator, the anchor
	// included, unlocks everything it holds: all members leave the set at once. Whatever the application answers
	// (CometBFT would refuse an empty set), every replica must answer the same.
	Exodus bool `json:"exodus,omitempty"`
	// Future: after the history one more block is executed (not committed) whose payload timestamp lies 2 s ahead of
	// the wall clock when the primary executes it; the replicas execute it 2.5 s later (nodes with skewed clocks accept
	// and later re-execute such a block): the answers must not depend on the wall clock.
	Future bool `json:"future,omitempty"`
}

type detReplica struct {
	node *world.Node
	dir  string
}

func updatesKey(us []abci.ValidatorUpdate) string {
	var out []string
	for _, u := range us {
		out = append(out, fmt.Sprintf("%x:%d", u.PubKey.GetSecp256K1(), u.Power))
	}
	sort.Strings(out)
	return fmt.Sprint(out)
}

func compareResponses(a, b *abci.ResponseFinalizeBlock, what string) *Failure {
	tag := "replica"
	if containsStr(what, "re-executed") {
		tag = "re-execution"
	} else if containsStr(what, "restarted") {
		tag = "restart"
	}
	return compareResponsesTagged(a, b, what, tag)
}

func compareResponsesTagged(a, b *abci.ResponseFinalizeBlock, what, tag string) *Failure {
	if !bytes.Equal(a.AppHash, b.AppHash) {
		return failf("same-app-hash", "app-hash-differs/"+tag, "%s: app hash %X vs %X", what, a.AppHash, b.AppHash)
	}
	if len(a.TxResults) != len(b.TxResults) {
		return failf("same-tx-results", "tx-result-count-differs/"+tag, "%s: %d vs %d tx results", what, len(a.TxResults), len(b.TxResults))
	}
	for i := range a.TxResults {
		x, y := a.TxResults[i], b.TxResults[i]
		if x.Code != y.Code || x.Codespace != y.Codespace {
			return failf("same-tx-results", "tx-code-differs/"+tag, "%s: tx %d code %d/%s vs %d/%s", what, i, x.Code, x.Codespace, y.Code, y.Codespace)
		}
		if x.GasUsed != y.GasUsed || x.GasWanted != y.GasWanted {
			return failf("same-tx-results", "tx-gas-differs/"+tag, "%s: tx %d (code %d) gas used %d vs %d (log %q)", what, i, x.Code, x.GasUsed, y.GasUsed, x.Log)
		}
		if !bytes.Equal(x.Data, y.Data) {
			return failf("same-tx-results", "tx-data-differs/"+tag, "%s: tx %d data differs", what, i)
		}
	}
	if updatesKey(a.ValidatorUpdates) != updatesKey(b.ValidatorUpdates) {
		return failf("same-validator-updates", "validator-updates-differ/"+tag, "%s: %s vs %s", what, updatesKey(a.ValidatorUpdates), updatesKey(b.ValidatorUpdates))
	}
	return nil
}

func engLogKey(l []world.Call) string {
	var out []string
	for _, c := range l {
		out = append(out, fmt.Sprintf("%s/%x/%x/%x/%d/%s", c.Method, c.Head[:6], c.Safe[:6], c.Hash[:6], c.Number, c.Result))
	}
	return fmt.Sprint(out)
}

func runDetCase(c DetCase) Outcome {
	o := Outcome{Classes: []string{lockCfgClass(c.Lock.Cfg)}}
	w, err := newLockWorld(c.Lock)
	if err != nil {
		o.Fail = failf("fixture", "fixture-failed", "%v", err)
		return o
	}
	defer w.close()
	nrep := 1 + abs(c.Replicas)%2
	var reps []*detReplica
	defer func() {
		for _, r := range reps {
			r.node.Close()
			if r.dir != "" {
				os.RemoveAll(r.dir)
			}
		}
	}()
	spec := c.Lock.Cfg.spec()
	for i := 0; i < nrep; i++ {
		var db dbm.DB = dbm.NewMemDB()
		dir := ""
		if c.OnDisk && i == 0 {
			dir = filepath.Join(world.WorkDir(), "db", fmt.Sprintf("%d-%p", os.Getpid(), &db))
			_ = os.MkdirAll(dir, 0o755)
			ldb, err := dbm.NewGoLevelDB("app", dir, nil)
			if err != nil {
				o.Fail = failf("fixture", "leveldb-failed", "%v", err)
				return o
			}
			db = ldb
		}
		n, err := world.NewNode(db, nil, 1+i, spec.ChainID) // another node key than the primary
		if err != nil {
			o.Fail = failf("fixture", "replica-failed", "%v", err)
			return o
		}
		if _, err := n.InitChain(spec); err != nil {
			o.Fail = failf("fixture", "replica-initchain-failed", "%v", err)
			return o
		}
		reps = append(reps, &detReplica{node: n, dir: dir})
	}
	// when the history restarts the chain from an export, every replica starts from the same export
	w.sim.OnReimport = func(reboot func(old *world.Node) (*world.Node, error)) error {
		for _, r := range reps {
			n, err := reboot(r.node)
			if err != nil {
				return err
			}
			r.node = n // in memory from here on; the directory of an on-disk replica is removed at the end
		}
		return nil
	}
	bi := 0
	w.hook = func(blk world.Block, txs [][]byte, res *world.StepResult) *Failure {
		mode := 0
		if bi < len(c.Modes) {
			mode = abs(c.Modes[bi]) % 6
		}
		failing := false
		for _, tr := range res.Resp.TxResults {
			if tr.Code != 0 {
				failing = true
			}
		}
		if failing || len(res.Resp.ValidatorUpdates) >= 2 || mode != 0 {
			o.NonTrivial = true
		}
		if failing {
			o.Classes = append(o.Classes, "failing-tx")
		}
		for ri, r := range reps {
			what := fmt.Sprintf("block %d replica %d", bi, ri)
			prevProcs := 0
			switch mode {
			case 2:
				prevProcs = runtime.GOMAXPROCS(1)
			case 3:
				prevProcs = runtime.GOMAXPROCS(4)
			case 5:
				// this replica's execution node is slow: it answers the end-of-block newPayload after 1.5 s
				r.node.Eng.ArmFaults([]world.Fault{{Method: "newPayload", Nth: 0, Kind: world.FaultStall}})
				what += " (slow engine)"
			case 4:
				if blk.Height > w.sim.Chain.Initial {
					n2, err := r.node.Restart()
					if err != nil {
						return failf("restart", "restart-failed", "%v", err)
					}
					r.node = n2
					what += " (restarted before the block)"
				}
			}
			r.node.Eng.TakeLog()
			resp, err := r.node.Finalize(res.Req)
			if mode == 5 {
				r.node.Eng.ArmFaults(nil)
			}
			if prevProcs > 0 {
				runtime.GOMAXPROCS(prevProcs)
			}
			if err != nil {
				return failf("same-outcome", "replica-finalize-failed", "%s: FinalizeBlock failed on the replica but not on the primary: %v", what, err)
			}
			if fl := compareResponses(res.Resp, resp, what); fl != nil {
				return fl
			}
			if a, b := engLogKey(res.EngLog), engLogKey(r.node.Eng.TakeLog()); a != b {
				return failf("same-engine-calls", "engine-calls-differ", "%s: engine calls %s vs %s", what, a, b)
			}
			if mode == 1 && blk.Height > w.sim.Chain.Initial {
				// crash between FinalizeBlock and Commit: the block is executed again after the restart
				n2, err := r.node.Restart()
				if err != nil {
					return failf("restart", "restart-failed", "%v", err)
				}
				r.node = n2
				resp2, err := r.node.Finalize(res.Req)
				if err != nil {
					return failf("same-outcome", "re-execution-failed", "%s: re-execution after a restart failed: %v", what, err)
				}
				if fl := compareResponses(res.Resp, resp2, what+" re-executed after restart"); fl != nil {
					return fl
				}
				r.node.Eng.TakeLog()
				o.Classes = append(o.Classes, "re-executed")
			}
			if err := r.node.Commit(); err != nil {
				return failf("block-processing", "replica-commit-failed", "%v", err)
			}
		}
		bi++
		return nil
	}
	for i, lb := range c.Lock.Blocks {
		if err := w.step(i, lb); err != nil {
			if w.hookFail != nil {
				o.Fail = w.hookFail
				return o
			}
			o.Classes = append(o.Classes, "aborted:block-failed") // C13 owns block failures
			return o
		}
		o.Evals++
	}
	if c.Future && !c.Exodus {
		ts := uint64(time.Now().Unix()) + 2
		blk, txs, err := w.sim.Begin(world.StepOpts{DT: time.Second, Proposer: -1, Eth: world.EthBlockOpts{Timestamp: ts}})
		if err == nil {
			req := blk.FinalizeReq(txs, w.sim.Chain.NextVals.Hash())
			resp, err := w.sim.Node.Finalize(req)
			time.Sleep(2500 * time.Millisecond)
			for ri, r := range reps {
				rr, rerr := r.node.Finalize(req)
				what := fmt.Sprintf("block with a payload timestamp ahead of the clock, replica %d (executed 2.5 s later)", ri)
				if (err == nil) != (rerr == nil) {
					o.Fail = failf("same-outcome", "replica-finalize-failed", "%s: primary error %v, replica error %v", what, err, rerr)
					return o
				}
				if err == nil {
					if fl := compareResponses(resp, rr, what); fl != nil {
						o.Fail = fl
						return o
					}
				}
			}
			o.Classes = append(o.Classes, "future-timestamp-block")
			o.NonTrivial = true
		}
	}
	if c.Exodus && w.obs != nil {
		lr := goattypes.LockingRequests{}
		id := uint64(1_000_000)
		for _, v := range w.obs.Validators {
			idx := idxOfPubkey(v.Pubkey)
			if idx < 0 {
				continue
			}
			for _, coin := range v.Locking {
				for ti := range c.Lock.Cfg.Tokens {
					if tokenDenom(tokenAddrs[ti]) == coin.Denom {
						id++
						lr.Unlocks = append(lr.Unlocks, &goattypes.UnlockRequest{Id: id, Validator: valAccount(idx).EthAddr(), Recipient: common.BytesToAddress([]byte("exodus")), Token: tokenAddrs[ti], Amount: coin.Amount.BigInt()})
					}
				}
			}
		}
		blk, txs, err := w.sim.Begin(world.StepOpts{DT: time.Second, Proposer: -1, Eth: world.EthBlockOpts{Plan: world.BuildPlan{Requests: lr.Encode()}}})
		if err == nil {
			req := blk.FinalizeReq(txs, w.sim.Chain.NextVals.Hash())
			resp, err := w.sim.Node.Finalize(req)
			for ri, r := range reps {
				rr, rerr := r.node.Finalize(req)
				what := fmt.Sprintf("exodus block, replica %d", ri)
				if (err == nil) != (rerr == nil) {
					o.Fail = failf("same-outcome", "replica-finalize-failed", "%s: primary error %v, replica error %v", what, err, rerr)
					return o
				}
				if err == nil {
					if fl := compareResponses(resp, rr, what); fl != nil {
						o.Fail = fl
						return o
					}
				}
			}
			o.Classes = append(o.Classes, fmt.Sprintf("exodus/updates=%d", func() int {
				if resp == nil {
					return -1
				}
				return len(resp.ValidatorUpdates)
			}()))
			o.NonTrivial = true
		}
	}
	return o
}

func genDetCase(t *rapid.T) DetCase {
	c := DetCase{Lock: genLockCase("C07", 30)(t), Replicas: rapid.IntRange(0, 1).Draw(t, "replicas"), OnDisk: rapid.IntRange(0, 3).Draw(t, "onDisk") == 0, Exodus: rapid.IntRange(0, 2).Draw(t, "exodus") == 0, Future: rapid.IntRange(0, 15).Draw(t, "future") == 0}
	// more multi-validator lock batches with one failing entry
	for i := range c.Lock.Blocks {
		c.Modes = append(c.Modes, rapid.SampledFrom([]int{0, 0, 0, 1, 2, 3, 4, 0, 0, 0, 1, 2, 3, 4, 0, 0, 0, 1, 2, 3, 4, 5}).Draw(t, "mode"))
		if rapid.IntRange(0, 3).Draw(t, "batch") == 0 {
			b := &c.Lock.Blocks[i]
			k := rapid.IntRange(2, 5).Draw(t, "batchN")
			for j := 0; j < k; j++ {
				b.Locks = append(b.Locks, LockReq{V: rapid.IntRange(1, lockUniverse-1).Draw(t, "bv"), Tok: rapid.IntRange(0, len(c.Lock.Cfg.Tokens)-1).Draw(t, "bt"), Amt: genAmount(t, "ba", c.Lock.Cfg)})
			}
			if rapid.Bool().Draw(t, "batchBad") {
				b.Bad = 1
			}
		}
	}
	return c
}

func TestC07_Determinism(t *testing.T) {
	RunProp(t, Prop[DetCase]{
		ID: "C07", Name: "determinism", Quick: 400, Thor: 8000,
		Gen: genDetCase, Run: runDetCase,
		Rule: "kitchen-sink locking-world histories (all request kinds incl. adversarial ones: unknown validator/token, multi-validator lock batches where one entry fails, dust, several validators leaving, absences, evidence) executed on a primary and 1-2 replicas with separate stores (one optionally on on-disk goleveldb), separate fake execution layers and other node keys; per block a replica either executes plainly, is restarted between FinalizeBlock and Commit and executes the block again, is restarted before the block, or runs under GOMAXPROCS 1 or 4; every execution of the same block must agree on app hash, per-transaction code/codespace/gas wanted/gas used/data, the set of validator updates and the engine call log; non-trivial = the block has a failing transaction, >= 2 validator updates, or a restart/re-execution/GOMAXPROCS point; evaluations count blocks; a third of the histories end with an uncommitted block in which every validator, the anchor included, unlocks everything it holds, so that all members leave the set at once: primary and replicas must give the same answer; one history in sixteen ends with an uncommitted block whose payload timestamp is 2 s ahead of the wall clock, executed by the primary at once and by the replicas 2.5 s later; now and then a replica executes a block with an execution node that answers the end-of-block newPayload only after 1.5 s",
	})
}

// ---- bridge / relayer messages on replicas ----

// BridgeDetCase runs a deposit, withdrawal or relayer history with one replica attached to the chain.
type BridgeDetCase struct {
	Source string      `json:"source"` // deposits | withdrawals | relayer
	Dep    DepositCase `json:"dep,omitempty"`
	Wd     WdCase      `json:"wd,omitempty"`
	Rel    RelCase     `json:"rel,omitempty"`
	Cold   bool        `json:"cold,omitempty"` // the replica is restarted before every block
}

func divergence(o Outcome) *Failure {
	if o.Fail != nil && containsStr(o.Fail.Detail, "replica divergence") {
		sig := "replica-divergence"
		switch {
		case containsStr(o.Fail.Detail, "gas used"):
			sig = "tx-gas-differs/replica"
		case containsStr(o.Fail.Detail, "app hash"):
			sig = "app-hash-differs/replica"
		case containsStr(o.Fail.Detail, "code"):
			sig = "tx-code-differs/replica"
		}
		return failf("same-results-on-replicas", sig, "%s", o.Fail.Detail)
	}
	return nil
}

func runBridgeDet(c BridgeDetCase) Outcome {
	world.ReplicasWanted = 1
	world.ReplicasCold = c.Cold
	defer func() { world.ReplicasWanted, world.ReplicasCold = 0, false }()
	var inner Outcome
	switch c.Source {
	case "deposits":
		inner = runDepositHistory(c.Dep)
	case "withdrawals":
		inner = runWdCase(c.Wd)
	default:
		inner = runRelayer(c.Rel, "C02")
	}
	o := Outcome{Classes: append([]string{"source=" + c.Source, fmt.Sprintf("cold-replica=%v", c.Cold)}, inner.Classes...), Evals: inner.Evals, NonTrivial: true}
	// only disagreement between the executions is this property's business; the inner oracles belong to C03/C05/C02
	o.Fail = divergence(inner)
	if inner.Fail != nil && o.Fail == nil {
		o.Classes = append(o.Classes, "inner-oracle-failed")
	}
	return o
}

func TestC07_Bridge(t *testing.T) {
	RunProp(t, Prop[BridgeDetCase]{
		ID: "C07", Name: "bridge", Quick: 400, Thor: 8000,
		Gen: func(t *rapid.T) BridgeDetCase {
			c := BridgeDetCase{Source: rapid.SampledFrom([]string{"deposits", "deposits", "withdrawals", "relayer"}).Draw(t, "source"), Cold: rapid.Bool().Draw(t, "cold")}
			switch c.Source {
			case "deposits":
				c.Dep = genDepositHistory(t)
				// more failing multi-item batches
				for i := range c.Dep.Batches {
					for j := range c.Dep.Batches[i].Items {
						if rapid.IntRange(0, 3).Draw(t, "mutate") == 0 {
							c.Dep.Batches[i].Items[j].Mut = rapid.IntRange(1, numDepMuts-1).Draw(t, "mut")
						}
					}
				}
			case "withdrawals":
				c.Wd = genWdCase(t)
			default:
				c.Rel = genRelCase("C02")(t)
			}
			return c
		},
		Run:  runBridgeDet,
		Rule: "deposit-batch histories (multi-item, multi-header batches with mutated items, several batches per block, restarts), withdrawal lifecycles and relayer-world histories (failing votes, replays, registrations, elections) executed on the primary and on a replica with its own store, fake execution layer and node key (in half of the cases the replica is restarted before every block, so that it never shares the primary's process history); every block's app hash and per-transaction code/codespace/gas/data must agree; every case is non-trivial (each contains failing transactions); evaluations count blocks",
	})
}
