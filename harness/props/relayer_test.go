package props

// The "relayer world" shared by C02 and C16: histories of voted and non-voted
// proposer messages, vote replays, registrations, acceptances, add/remove
// requests from the execution layer and block times around the election
// deadlines, against a reference model of the group and of the proposal
// sequence / randomness accumulator.

import (
	"bytes"
	"crypto/sha256"
	"fmt"
	"github.com/btcsuite/btcd/wire"
	"sort"
	"strings"
	"time"

	sdk "github.com/cosmos/cosmos-sdk/types"
	"github.com/ethereum/go-ethereum/common"
	"github.com/ethereum/go-ethereum/core/types/goattypes"
	ethcrypto "github.com/ethereum/go-ethereum/crypto"
	bitcointypes "github.com/goatnetwork/goat/x/bitcoin/types"
	relayertypes "github.com/goatnetwork/goat/x/relayer/types"
	"pgregory.net/rapid"
	"verif/harness/world"
)

const relUniverse = 12 // relayer member indices 0..11

// ---- data-only case ----

type NewVoterSpec struct {
	Member int `json:"member"`
	Forge  int `json:"forge"` // 0 genuine; 1 other tx key; 2 other bls key; 3 chain id; 4 epoch; 5 proposer; 6 height; 7 bls proof by other key; 8 tx proof by other key
}

type RelTx struct {
	Kind   string       `json:"kind"` // vote | replay | cross | postfail | newvoter | accept | approve
	Vote   VoteSpec     `json:"vote"`
	Ref    int          `json:"ref"`
	NV     NewVoterSpec `json:"nv"`
	EpochD int          `json:"epoch_d"`
}

type RelBlock struct {
	DT      int     `json:"dt"`
	Adds    []int   `json:"adds,omitempty"`
	Removes []int   `json:"removes,omitempty"`
	Txs     []RelTx `json:"txs,omitempty"`
	// Reimport: before this block the chain is restarted from its exported state
	Reimport bool `json:"reimport,omitempty"`
}

type RelCase struct {
	N          int        `json:"n"`
	Epoch      uint64     `json:"epoch"`
	Seq        uint64     `json:"seq"`
	PeriodSec  int        `json:"period_sec"`
	TimeoutSec int        `json:"timeout_sec"`
	Blocks     []RelBlock `json:"blocks"`
}

// ---- reference model ----

type rRecord struct {
	status  string // pending | onboarding | activated | offboarding
	keyHash []byte
	height  uint64
}

type relModel struct {
	members     map[string]bool // proposer and voters
	records     map[string]*rRecord
	onQ, offQ   []string
	epoch       uint64
	seq         uint64
	randao      []byte
	lastElected time.Time
	accepted    bool
	period      time.Duration
	timeout     time.Duration
	accounts    map[string]bool // addresses that have an auth account
}

type acceptedVote struct {
	body  voteBody
	votes *relayertypes.Votes
	prop  string
}

type relWorld struct {
	f                       *voteFixture
	m                       *relModel
	history                 []acceptedVote
	nt                      map[string]bool
	elections               int
	electedNow, propRemoved bool
	prevProposer            string
}

func relMember(i int) (world.Account, world.BLSKey) { return world.RelayerMember(i) }

func newRelWorld(c RelCase) (*relWorld, error) {
	f, err := newVoteFixtureWith(c.N, c.Epoch, c.Seq, false, time.Duration(c.PeriodSec)*time.Second, time.Duration(c.TimeoutSec)*time.Second)
	if err != nil {
		return nil, err
	}
	m := &relModel{members: map[string]bool{}, records: map[string]*rRecord{}, epoch: c.Epoch, accepted: true,
		period: time.Duration(c.PeriodSec) * time.Second, timeout: time.Duration(c.TimeoutSec) * time.Second,
		lastElected: world.GenesisTime, accounts: map[string]bool{}}
	for i := 0; i <= c.N; i++ {
		a, _ := relMember(i)
		m.records[a.Bech32()] = &rRecord{status: "activated"}
		m.accounts[a.Bech32()] = true
		m.members[a.Bech32()] = true
	}
	m.accounts[world.NewAccount(world.DomValidator, 0).Bech32()] = true
	w := &relWorld{f: f, m: m, nt: map[string]bool{}}
	// the fixture already executed one accepted vote
	g, err := w.export()
	if err != nil {
		f.close()
		return nil, err
	}
	m.seq, m.randao = g.Sequence, g.Randao
	return w, nil
}

func (w *relWorld) export() (*relayertypes.GenesisState, error) {
	n := w.f.sim.Node
	raw, err := n.App.ModuleManager.ExportGenesisForModules(n.CommittedCtx(), n.App.AppCodec(), []string{"relayer"})
	if err != nil {
		return nil, err
	}
	var g relayertypes.GenesisState
	if err := n.App.AppCodec().UnmarshalJSON(raw["relayer"], &g); err != nil {
		return nil, err
	}
	return &g, nil
}

// registration sign doc, from the statement: bound to chain, epoch, proposer and the registration
func registrationDoc(chainID, proposer string, epoch, height uint64, txKeyHash, voteKeyHash []byte) []byte {
	payload := append(append(u64leBytes(height), txKeyHash...), voteKeyHash...)
	return world.SignDoc("Relayer/NewVoter", world.VoteCtx{ChainID: chainID, Proposer: proposer, Sequence: 0, Epoch: epoch}, payload)
}

func u64leBytes(v uint64) []byte {
	b := make([]byte, 8)
	for i := 0; i < 8; i++ {
		b[i] = byte(v >> (8 * i))
	}
	return b
}

func secpProof(acc world.Account, doc []byte) []byte {
	k, err := ethcrypto.ToECDSA(acc.Priv.Key)
	if err != nil {
		panic(err)
	}
	sig, err := ethcrypto.Sign(doc, k)
	if err != nil {
		panic(err)
	}
	return sig[:64]
}

// buildNewVoter builds a registration message; genuine reports whether every proof is right.
func (w *relWorld) buildNewVoter(s NewVoterSpec, rv world.RelayerView) (sdk.Msg, string, bool) {
	idx := abs(s.Member) % relUniverse
	// abstract reference: mostly one of the currently pending registrations
	var pend []int
	for i := 0; i < relUniverse; i++ {
		a, _ := relMember(i)
		if r := w.m.records[a.Bech32()]; r != nil && r.status == "pending" {
			pend = append(pend, i)
		}
	}
	if len(pend) > 0 && abs(s.Member)%4 != 0 {
		idx = pend[abs(s.Member)%len(pend)]
	}
	acc, bls := relMember(idx)
	rec := w.m.records[acc.Bech32()]
	height := uint64(0)
	keyHash := sha256sum(bls.PK)
	if rec != nil {
		height = rec.height
	}
	chain, epoch, proposer := w.f.sim.Spec.ChainID, rv.Epoch, rv.Proposer
	txAcc, blsKey := acc, bls
	txSigner, blsSigner := acc, bls
	genuine := true
	switch s.Forge % 9 {
	case 1:
		txAcc, _ = relMember((idx + 1) % relUniverse)
		txSigner = txAcc
		genuine = false
	case 2:
		_, blsKey = relMember((idx + 1) % relUniverse)
		blsSigner = blsKey
		genuine = false
	case 3:
		chain += "-x"
		genuine = false
	case 4:
		epoch++
		genuine = false
	case 5:
		other, _ := relMember((idx + 2) % relUniverse)
		if other.Bech32() == rv.Proposer {
			other, _ = relMember((idx + 3) % relUniverse)
		}
		proposer = other.Bech32()
		genuine = false
	case 6:
		height++
		genuine = false
	case 7:
		_, blsSigner = relMember((idx + 3) % relUniverse)
		genuine = false
	case 8:
		txSigner, _ = relMember((idx + 3) % relUniverse)
		genuine = false
	}
	doc := registrationDoc(chain, proposer, epoch, height, acc.Addr(), keyHash)
	msg := &relayertypes.MsgNewVoterRequest{
		Proposer: rv.Proposer, VoterBlsKey: blsKey.PK, VoterTxKey: txAcc.PubKey().Key,
		VoterTxKeyProof: secpProof(txSigner, doc), VoterBlsKeyProof: blsSigner.Sign(doc),
	}
	return msg, acc.Bech32(), genuine
}

func sha256sum(b ...[]byte) []byte {
	h := sha256.New()
	for _, x := range b {
		h.Write(x)
	}
	return h.Sum(nil)
}

// relOutcome is what happened to one transaction.
type relTxResult struct {
	kind     string
	expect   verdict
	code     uint32
	log      string
	voted    bool
	sig      []byte
	body     *voteBody
	votes    *relayertypes.Votes
	reason   string
	register string // address registered by an accepted NewVoter
}

// step runs one block; returns the per-tx results and the twin dumps.
func (w *relWorld) step(rb RelBlock) ([]relTxResult, *world.TwinResult, *Failure) {
	f, m := w.f, w.m
	sim := f.sim
	if rb.Reimport {
		if err := sim.Reimport(); err != nil {
			return nil, nil, failf("re-import", "re-import-failed", "%v", err)
		}
		w.nt["reimported"] = true
	}
	rv, err := sim.Node.RelayerView()
	if err != nil {
		return nil, nil, failf("query", "query-failed", "%v", err)
	}
	// execution-layer membership requests
	rr := goattypes.RelayerRequests{}
	for _, a := range rb.Adds {
		acc, bls := relMember(abs(a) % relUniverse)
		rr.Adds = append(rr.Adds, &goattypes.AddVoterRequest{Voter: acc.EthAddr(), Pubkey: common.BytesToHash(sha256sum(bls.PK))})
	}
	for _, r := range rb.Removes {
		acc, _ := relMember(abs(r) % relUniverse)
		rr.Removes = append(rr.Removes, &goattypes.RemoveVoterRequest{Voter: acc.EthAddr()})
	}
	dt := time.Duration(rb.DT) * time.Second
	blk, ethTxs, err := sim.Begin(world.StepOpts{DT: dt, Proposer: -1, Eth: world.EthBlockOpts{Plan: world.BuildPlan{Requests: rr.Encode()}}})
	if err != nil {
		return nil, nil, failf("fixture", "begin-failed", "%v", err)
	}
	prop := f.memberAcc(rv.Proposer)
	var results []relTxResult
	var with, without [][]byte
	with = append(with, ethTxs...)
	without = append(without, ethTxs...)
	bump := uint64(0)
	seqNow := rv.Sequence
	accepted := rv.Accepted
	registeredNow := map[string]bool{}
	for ti, rt := range rb.Txs {
		if ti >= 2 {
			break
		}
		var msg sdk.Msg
		res := relTxResult{kind: rt.Kind, expect: vReject}
		signer := prop
		if rt.Kind == "old-epoch" {
			// a genuine full vote, but signed (and labelled) for an earlier epoch or a neighbouring sequence
			rt.Kind = "vote"
			rt.Vote.Class, rt.Vote.BitmapBytes = "honest-all", -1
			d := -1 - abs(rt.Ref)%2
			if uint64(-d) > rv.Epoch || abs(rt.Ref)%5 == 0 {
				d = 1 + abs(rt.Ref)%2
			}
			if abs(rt.Ref)%3 == 0 {
				// an earlier transaction of this block may consume one sequence number: stay clear of +1
				sd := []int{-1, -2, 2, 3}[abs(rt.Ref)%4]
				rt.Vote.MsgSeqDelta, rt.Vote.DocSeqDelta = sd, sd
			} else {
				rt.Vote.MsgEpDelta, rt.Vote.DocEpDelta = d, d
			}
			w.nt["reuse"] = true
		}
		switch rt.Kind {
		case "vote":
			if rt.Vote.Kind%numVoteKinds == kindProcess && len(f.pending) == 0 {
				continue
			}
			v, err := f.buildVote(rt.Vote)
			if err != nil {
				return nil, nil, failf("fixture", "vote-build-failed", "%v", err)
			}
			// the fixture resolves against committed state; a second voted tx in the block sees seq+1
			if seqNow != rv.Sequence && v.mustAccept {
				v.mustAccept, v.reason = false, "sequence-already-consumed-in-this-block"
			}
			msg, signer = v.msg, v.signer
			res.voted, res.body, res.reason = true, &v.body, v.reason
			res.votes = voteOf(v.msg)
			if d := int(seqNow - rv.Sequence); d > 0 && rt.Vote.DocSeqDelta == d && rt.Vote.MsgSeqDelta == d {
				// signed and labelled for exactly the sequence an earlier transaction of this block has moved to: such a vote
				// can be genuine; the fixture (resolved against committed state) cannot decide its other clauses
				v.unspecified = true
			}
			if v.unspecified {
				res.expect = vUnspecified
			} else if v.mustAccept {
				res.expect = vAccept
			}
		case "replay", "cross":
			if len(w.history) == 0 {
				continue
			}
			h := w.history[abs(rt.Ref)%len(w.history)]
			body := h.body
			if rt.Kind == "cross" {
				// the same Votes under another (valid) message body
				body = f.body((h.body.kind+1+abs(rt.Ref)%3)%numVoteKinds, rt.Ref)
				if body.kind == kindProcess && len(f.pending) == 0 {
					body = f.bodyConsolidation()
				}
			}
			reused := h.votes
			if abs(rt.Ref)%2 == 1 {
				// the same bitmap and signature with the sequence and epoch fields rewritten to the current values
				reused = &relayertypes.Votes{Sequence: seqNow, Epoch: rv.Epoch, Voters: h.votes.Voters, Signature: h.votes.Signature}
				w.nt["reuse-relabelled"] = true
			}
			msg = body.msg(rv.Proposer, reused)
			res.voted, res.body, res.votes, res.reason = true, &body, reused, "vote-reused"
			w.nt["reuse"] = true
		case "postfail":
			// a genuine vote over a body that fails after the signature check
			var body voteBody
			switch abs(rt.Ref) % 3 {
			case 0:
				body = voteBody{kind: kindPubkey, pubkey: f.btcKey.Public()} // key already registered
			case 2:
				// a known pending withdrawal whose output pays another script than the user's address
				if len(f.pending) == 0 {
					continue
				}
				body = f.bodyProcess()
				body.tx = world.SerializeNoWitness(world.SpendTx(f.nextSalt(), wire.NewTxOut(int64(f.amount-1000), userScript(999_001)), wire.NewTxOut(int64(f.amount-1000), userScript(999_001))))
				body.fee = uint64(len(body.tx))
			default:
				if len(f.pending) == 0 {
					continue
				}
				body = f.bodyProcess()
				body.ids = append(body.ids, 999_999) // unknown withdrawal id after a known one
				body.tx = f.withdrawTx([]uint64{body.ids[0], body.ids[0]}, false)
				body.fee = uint64(len(body.tx))
			}
			raw, err := f.honestMsg(body, rv)
			if err != nil {
				return nil, nil, failf("fixture", "vote-build-failed", "%v", err)
			}
			msg = raw
			res.voted, res.body, res.votes, res.reason = true, &body, voteOf(raw), "fails-after-signature-check"
			w.nt["postfail"] = true
		case "newvoter":
			var addr string
			var genuine bool
			msg, addr, genuine = w.buildNewVoter(rt.NV, rv)
			rec := m.records[addr]
			if registeredNow[addr] {
				rec = nil // already registered by an earlier transaction of this block
			}
			if genuine && rec != nil && rec.status == "pending" {
				res.expect = vAccept
				res.register = addr
				registeredNow[addr] = true
			}
			if !genuine {
				res.reason = fmt.Sprintf("forged-registration-%d", rt.NV.Forge%9)
			} else if res.expect != vAccept {
				res.reason = "no-pending-registration"
			}
		case "accept":
			ep := uint64(int64(rv.Epoch) + int64(rt.EpochD))
			msg = &relayertypes.MsgAcceptProposerRequest{Proposer: rv.Proposer, Epoch: ep}
			if !accepted && rt.EpochD == 0 && blk.Time.Sub(m.lastElected) <= m.timeout {
				res.expect = vAccept
			}
			res.reason = "accept-proposer"
		case "approve":
			// a non-voted message that fails (unknown withdrawal): must leave everything as it was
			msg = &bitcointypes.MsgApproveCancellation{Proposer: rv.Proposer, Id: []uint64{777_777}}
			res.reason = "approve-unknown-withdrawal"
		default:
			continue
		}
		raw, err := sim.Node.Tx(signer, bumpFor(signer, prop, bump), world.TxOpts{}, msg)
		if err != nil {
			return nil, nil, failf("fixture", "tx-build-failed", "%v", err)
		}
		with = append(with, raw)
		if res.expect == vAccept {
			without = append(without, raw)
			if string(signer.Addr()) == string(prop.Addr()) {
				bump++
			}
			if res.voted {
				seqNow++
			}
			accepted = true
		}
		results = append(results, res)
		if res.expect != vAccept {
			break // a rejected transaction is the last one of its block (keeps the twin comparable)
		}
	}
	var tw *world.TwinResult
	if blk.Height <= sim.Chain.Initial {
		// first block of a re-imported chain: twin execution needs a committed block, so this block is executed once
		// (the twin comparison is vacuous for it)
		r, err := sim.Exec(blk, with, false)
		if err != nil {
			return nil, nil, failf("block-processing", "block-failed", "%v", err)
		}
		d := sim.Node.DumpStores(sim.Node.CommittedCtx())
		tw = &world.TwinResult{Block: blk, Without: r.Resp, With: r.Resp, DumpWithout: d, DumpWith: d}
	} else {
		tw, err = sim.ExecTwin(blk, without, with)
		if err != nil {
			return nil, nil, failf("block-processing", "block-failed", "%v", err)
		}
	}
	for i := range results {
		r := tw.With.TxResults[1+i]
		results[i].code, results[i].log = r.Code, r.Log
	}

	// ---- model update (driven by the statement; tx outcomes as observed are compared by the checkers) ----
	ethOK := tw.With.TxResults[0].Code == 0
	// the execution-block message (membership requests) runs first, then the other transactions
	if ethOK {
		for _, a := range rb.Adds {
			acc, bls := relMember(abs(a) % relUniverse)
			if m.records[acc.Bech32()] == nil {
				m.records[acc.Bech32()] = &rRecord{status: "pending", keyHash: sha256sum(bls.PK), height: uint64(blk.Height)}
			}
		}
		if len(rb.Removes) > 0 {
			active := len(m.members) - len(m.offQ)
			for _, r := range rb.Removes {
				acc, _ := relMember(abs(r) % relUniverse)
				rec := m.records[acc.Bech32()]
				if rec == nil || rec.status != "activated" {
					continue
				}
				active--
				if active < 1 {
					w.nt["removal-refused"] = true
					break
				}
				rec.status = "offboarding"
				m.offQ = append(m.offQ, acc.Bech32())
			}
		}
	}
	for i, res := range results {
		if res.code != 0 {
			continue
		}
		m.accepted = true
		if res.voted {
			m.seq++
			m.randao = sha256sum(m.randao, res.votes.Signature)
			w.history = append(w.history, acceptedVote{body: *res.body, votes: res.votes, prop: rv.Proposer})
			f.consume(*res.body)
		}
		if res.register != "" {
			rec := m.records[res.register]
			if m.accounts[res.register] {
				rec.status = "offboarding"
				m.offQ = append(m.offQ, res.register)
			} else {
				rec.status = "onboarding"
				m.onQ = append(m.onQ, res.register)
				m.accounts[res.register] = true
			}
			w.nt["registration"] = true
		}
		_ = i
	}
	// election at the end of the block
	w.electedNow, w.propRemoved, w.prevProposer = false, false, rv.Proposer
	d := blk.Time.Sub(m.lastElected)
	if !(d < m.period && (m.accepted || m.timeout == 0 || d < m.timeout)) {
		w.elections++
		joined, left := len(m.onQ) > 0, false
		for _, a := range m.onQ {
			m.records[a].status = "activated"
			m.members[a] = true
		}
		propRemoved := false
		for _, a := range m.offQ {
			delete(m.records, a)
			if m.members[a] {
				left = true
			}
			delete(m.members, a)
			if a == rv.Proposer {
				propRemoved = true
			}
		}
		if joined && left {
			w.nt["election-join+leave"] = true
		}
		m.onQ, m.offQ = nil, nil
		m.epoch++
		m.lastElected = blk.Time
		w.electedNow, w.propRemoved = true, propRemoved
		if !propRemoved && len(m.members) == 1 {
			m.accepted = true // no voter, no election
		} else {
			m.accepted = false
		}
	}
	return results, tw, nil
}

func bumpFor(signer, prop world.Account, bump uint64) uint64 {
	if string(signer.Addr()) == string(prop.Addr()) {
		return bump
	}
	return 0
}

func voteOf(m sdk.Msg) *relayertypes.Votes {
	switch x := m.(type) {
	case *bitcointypes.MsgNewBlockHashes:
		return x.Vote
	case *bitcointypes.MsgNewPubkey:
		return x.Vote
	case *bitcointypes.MsgProcessWithdrawal:
		return x.Vote
	case *bitcointypes.MsgReplaceWithdrawal:
		return x.Vote
	case *bitcointypes.MsgNewConsolidation:
		return x.Vote
	}
	return nil
}

// honestMsg signs body with a full honest vote of the current group.
func (f *voteFixture) honestMsg(b voteBody, rv world.RelayerView) (sdk.Msg, error) {
	ctx := world.VoteCtx{ChainID: f.sim.Spec.ChainID, Proposer: rv.Proposer, Sequence: rv.Sequence, Epoch: rv.Epoch}
	doc := world.SignDoc(kindMethods[b.kind], ctx, b.doc())
	signers := []world.BLSKey{f.memberBLS(rv.Proposer)}
	var marks []int
	for i, v := range rv.Voters {
		signers = append(signers, f.memberBLS(v))
		marks = append(marks, i)
	}
	votes, err := world.MakeVotes(ctx, doc, signers, canonicalBitmapLen(len(rv.Voters)), marks)
	if err != nil {
		return nil, err
	}
	return b.msg(rv.Proposer, votes), nil
}

// reconcile compares the group model with the exported state; which member
// becomes proposer at an election is the module's choice (any member is legal).
func (w *relWorld) reconcile(g *relayertypes.GenesisState) *Failure {
	m := w.m
	r := g.Relayer
	if r.Proposer == "" {
		return failf("one-proposer", "no-proposer", "the group has no proposer")
	}
	members := map[string]bool{r.Proposer: true}
	for _, v := range r.Voters {
		if members[v] {
			if v == r.Proposer {
				return failf("proposer-not-voter", "proposer-listed-as-voter", "proposer %s is also in the voter list", v)
			}
			return failf("distinct-members", "duplicate-member", "member %s listed twice", v)
		}
		members[v] = true
	}
	recs := map[string]relayertypes.Voter{}
	for _, v := range g.Voters {
		recs[sdk.MustBech32ifyAddressBytes("goat", v.Address)] = v
	}
	for a := range members {
		rec, ok := recs[a]
		if !ok {
			return failf("members-have-records", "member-without-record", "member %s has no voter record", a)
		}
		if rec.Status != relayertypes.VOTER_STATUS_ACTIVATED && rec.Status != relayertypes.VOTER_STATUS_OFF_BOARDING {
			return failf("members-have-records", "member-with-wrong-status", "member %s has status %s", a, rec.Status)
		}
	}
	for a := range members {
		if !m.members[a] {
			return failf("membership", "unexpected-member", "%s is a member but the reference group is %v", a, keysOf(m.members))
		}
	}
	for a := range m.members {
		if !members[a] {
			return failf("membership", "member-missing", "%s should be a member; group is proposer %s voters %v", a, r.Proposer, r.Voters)
		}
	}
	if !w.electedNow && r.Proposer != w.prevProposer {
		return failf("proposer-stable", "proposer-changed-without-election", "proposer changed from %s to %s without an election", w.prevProposer, r.Proposer)
	}
	if w.electedNow && w.propRemoved && r.Proposer == w.prevProposer {
		return failf("membership", "removed-proposer-still-proposer", "proposer %s was off-boarded but is still proposer", r.Proposer)
	}
	// voter records: statuses as in the model
	for a, rec := range m.records {
		got, ok := recs[a]
		if !ok {
			return failf("records", "record-missing", "voter record of %s is missing (reference status %s)", a, rec.status)
		}
		wantSt := map[string]relayertypes.VoterStatus{"pending": relayertypes.VOTER_STATUS_PENDING, "onboarding": relayertypes.VOTER_STATUS_ON_BOARDING,
			"activated": relayertypes.VOTER_STATUS_ACTIVATED, "offboarding": relayertypes.VOTER_STATUS_OFF_BOARDING}[rec.status]
		if got.Status != wantSt {
			return failf("records", "record-status-mismatch", "voter %s has status %s, reference %s", a, got.Status, rec.status)
		}
	}
	for a := range recs {
		if m.records[a] == nil {
			return failf("records", "unexpected-record", "voter record of %s exists, reference has none", a)
		}
	}
	return nil
}

func keysOf(m map[string]bool) []string {
	var out []string
	for k := range m {
		out = append(out, k[len(k)-6:])
	}
	sort.Strings(out)
	return out
}

// ---- generator ----

func genRelCase(focus string) func(t *rapid.T) RelCase {
	return func(t *rapid.T) RelCase {
		c := RelCase{
			N:          rapid.IntRange(0, 7).Draw(t, "n"),
			Epoch:      rapid.Uint64Range(0, 3).Draw(t, "epoch"),
			Seq:        rapid.Uint64Range(0, 3).Draw(t, "seq"),
			PeriodSec:  rapid.SampledFrom([]int{40, 60, 90}).Draw(t, "period"),
			TimeoutSec: rapid.SampledFrom([]int{0, 15, 20, 30}).Draw(t, "timeout"),
		}
		nb := rapid.IntRange(6, 40).Draw(t, "nblocks")
		for i := 0; i < nb; i++ {
			b := RelBlock{DT: rapid.SampledFrom([]int{1, 1, 5, 5, 10, 14, 15, 16, 19, 20, 21, 29, 30, 31}).Draw(t, "dt")}
			if rapid.IntRange(0, 3).Draw(t, "addRoll") == 0 {
				k := rapid.IntRange(1, 3).Draw(t, "nadd")
				for j := 0; j < k; j++ {
					b.Adds = append(b.Adds, rapid.IntRange(0, relUniverse-1).Draw(t, "add"))
				}
			}
			if rapid.IntRange(0, 4).Draw(t, "rmRoll") == 0 {
				k := rapid.SampledFrom([]int{1, 1, 2, 3, 8}).Draw(t, "nrm")
				for j := 0; j < k; j++ {
					b.Removes = append(b.Removes, rapid.IntRange(0, relUniverse-1).Draw(t, "rm"))
				}
				if rapid.IntRange(0, 2).Draw(t, "rmLeading") == 0 {
					// the proposer together with the first-listed voter(s): members 0, 1[, 2] of the genesis order
					b.Removes = append([]int{0, 1}, b.Removes...)
				}
			}
			ntx := rapid.SampledFrom([]int{0, 1, 1, 1, 2}).Draw(t, "ntx")
			for j := 0; j < ntx; j++ {
				kinds := []string{"vote", "vote", "vote", "replay", "cross", "postfail", "old-epoch", "old-epoch", "newvoter", "newvoter", "accept", "approve"}
				if focus == "C16" {
					kinds = []string{"vote", "vote", "newvoter", "newvoter", "newvoter", "accept", "accept", "replay", "approve"}
				}
				if focus == "C01" {
					kinds = []string{"vote", "vote", "vote", "vote", "newvoter", "newvoter", "accept"}
				}
				rt := RelTx{Kind: rapid.SampledFrom(kinds).Draw(t, "txKind"), Ref: rapid.IntRange(0, 50).Draw(t, "ref")}
				switch rt.Kind {
				case "old-epoch":
					rt.Vote = VoteSpec{Kind: rapid.IntRange(0, numVoteKinds-1).Draw(t, "oeKind"), BodyArg: rapid.IntRange(0, 7).Draw(t, "oeArg"), BitmapBytes: -1, Class: "honest-all"}
				case "vote":
					rt.Vote = genVoteSpec(t, c.N)
					if focus == "C02" && rapid.IntRange(0, 9).Draw(t, "permuteIds") == 0 {
						// a genuine vote over a two-withdrawal batch, delivered with the ids in the other order
						rt.Vote.Kind, rt.Vote.Class, rt.Vote.Tamper = kindProcess, "tamper", 2
					}
					if rt.Vote.Tamper == 0 && rapid.IntRange(0, 2).Draw(t, "honestBias") > 0 && (focus != "C01" || rapid.Bool().Draw(t, "honestBias2")) {
						rt.Vote.Class, rt.Vote.Marks, rt.Vote.Signers = "honest-all", nil, nil // resolved against the live group
						rt.Vote.BitmapBytes = -1
						rt.Vote.DocChain, rt.Vote.DocSeqDelta, rt.Vote.DocEpDelta, rt.Vote.DocMethod, rt.Vote.DocProposer = false, 0, 0, 0, 0
						rt.Vote.MsgSeqDelta, rt.Vote.MsgEpDelta, rt.Vote.MsgProposer, rt.Vote.Tamper, rt.Vote.SigKind = 0, 0, 0, 0, 0
					}
				case "newvoter":
					rt.NV = NewVoterSpec{Member: rapid.IntRange(0, relUniverse-1).Draw(t, "nvMember")}
					if rapid.IntRange(0, 2).Draw(t, "forge") == 0 {
						rt.NV.Forge = rapid.IntRange(1, 8).Draw(t, "forgeKind")
					}
				case "accept":
					rt.EpochD = rapid.SampledFrom([]int{0, 0, 0, -1, 1}).Draw(t, "epochD")
				}
				b.Txs = append(b.Txs, rt)
			}
			c.Blocks = append(c.Blocks, b)
		}
		// about a third of the histories are restarted from an exported state once or twice
		if len(c.Blocks) > 3 && rapid.IntRange(0, 2).Draw(t, "reimport") == 0 {
			for k, n := 0, rapid.IntRange(1, 2).Draw(t, "nreimport"); k < n; k++ {
				c.Blocks[rapid.IntRange(1, len(c.Blocks)-1).Draw(t, "reimportAt")].Reimport = true
			}
		}
		return c
	}
}

var _ = bytes.Equal
var _ = strings.Contains
