package props

// C19 — no input can crash the node or halt block processing; failures change nothing.

import (
	"bytes"
	"encoding/binary"
	"fmt"
	"math/big"
	"strings"
	"testing"
	"time"

	"cosmossdk.io/math"
	abci "github.com/cometbft/cometbft/abci/types"
	sdk "github.com/cosmos/cosmos-sdk/types"
	"github.com/ethereum/go-ethereum/common"
	"github.com/ethereum/go-ethereum/core/types/goattypes"
	bitcointypes "github.com/goatnetwork/goat/x/bitcoin/types"
	goatmodtypes "github.com/goatnetwork/goat/x/goat/types"
	relayertypes "github.com/goatnetwork/goat/x/relayer/types"
	"pgregory.net/rapid"
	"verif/harness/world"
)

// TxMut: a valid message of one type, one structural mutation, optional byte-level mutation, one delivery mode.
type TxMut struct {
	Base    int    `json:"base"` // message type index
	Mut     int    `json:"mut"`  // structural mutation index (0 = none)
	Arg     int    `json:"arg"`
	ByteMut int    `json:"byte_mut"` // 0 none, 1 truncate, 2 flip a bit, 3 append garbage, 4 random bytes, 5 repeat a chunk
	ByteArg uint64 `json:"byte_arg"`
	Mode    int    `json:"mode"` // 0 CheckTx, 1 ProcessProposal later tx, 2 ProcessProposal first tx, 3 FinalizeBlock
}

type TxMutCase struct {
	// Unaccepted: elections rotate the proposer (electing period 20 s, no accept timeout)
	Unaccepted bool    `json:"unaccepted,omitempty"`
	N          int     `json:"n"`
	Txs        []TxMut `json:"txs"`
}

var baseNames = []string{"NewBlockHashes", "NewPubkey", "ProcessWithdrawal", "ReplaceWithdrawal", "NewConsolidation", "NewDeposits",
	"FinalizeWithdrawal", "ApproveCancellation", "NewVoter", "AcceptProposer", "NewEthBlock", "rolled-back-registration"}

func garbage(n int, seed int) []byte {
	out := make([]byte, n)
	for i := range out {
		out[i] = byte(seed*31 + i*7)
	}
	return out
}

// mutateMsg applies structural mutation k to a well-formed message.
func mutateMsg(m sdk.Msg, k, arg int) sdk.Msg {
	bmLens := []int{1, 2, 7, 9, 15, 17, 31, 33, 40, 64, 255}
	votes := func(v **relayertypes.Votes) {
		switch k % 8 {
		case 1:
			*v = nil
		case 2:
			if *v != nil {
				(*v).Voters = garbage(bmLens[arg%len(bmLens)], arg)
			}
		case 3:
			if *v != nil {
				(*v).Signature = garbage([]int{0, 1, 47, 49, 96}[arg%5], arg)
			}
		case 4:
			if *v != nil {
				(*v).Sequence, (*v).Epoch = ^uint64(0), ^uint64(0)
			}
		}
	}
	switch x := m.(type) {
	case *bitcointypes.MsgNewBlockHashes:
		votes(&x.Vote)
		switch k % 8 {
		case 5:
			x.BlockHash = append(x.BlockHash, nil, garbage(31, arg), garbage(33, arg))
		case 6:
			for i := 0; i < 17; i++ {
				x.BlockHash = append(x.BlockHash, garbage(32, i))
			}
		case 7:
			x.StartBlockNumber = []uint64{0, ^uint64(0)}[arg%2]
		}
	case *bitcointypes.MsgNewPubkey:
		votes(&x.Vote)
		switch k % 8 {
		case 5:
			x.Pubkey = nil
		case 6:
			x.Pubkey = &relayertypes.PublicKey{}
		case 7:
			x.Pubkey = &relayertypes.PublicKey{Key: &relayertypes.PublicKey_Secp256K1{Secp256K1: garbage([]int{0, 32, 33, 65}[arg%4], 4)}}
		}
	case *bitcointypes.MsgProcessWithdrawal:
		votes(&x.Vote)
		switch k % 8 {
		case 5:
			x.Id = nil
		case 6:
			x.Id = make([]uint64, []int{33, 1000}[arg%2])
		case 7:
			x.NoWitnessTx = garbage([]int{0, 10, 60, 200, 32*1024 + 1}[arg%5], arg)
		case 0:
			if k > 0 {
				x.TxFee = []uint64{0, ^uint64(0)}[arg%2]
			}
		}
	case *bitcointypes.MsgReplaceWithdrawal:
		votes(&x.Vote)
		switch k % 8 {
		case 5:
			x.Pid = ^uint64(0)
		case 6:
			x.NewNoWitnessTx = garbage([]int{0, 10, 60, 200}[arg%4], arg)
		case 7:
			x.NewTxFee = []uint64{0, ^uint64(0)}[arg%2]
		}
	case *bitcointypes.MsgNewConsolidation:
		votes(&x.Vote)
		if k%8 >= 5 {
			x.NoWitnessTx = garbage([]int{0, 10, 60, 200, 32*1024 + 1}[arg%5], arg)
		}
	case *bitcointypes.MsgNewDeposits:
		switch k % 8 {
		case 1:
			x.Deposits = append(x.Deposits, nil)
		case 2:
			x.BlockHeaders = append(x.BlockHeaders, nil)
		case 3:
			if len(x.Deposits) > 0 {
				x.Deposits[0].RelayerPubkey = nil
			}
		case 4:
			if len(x.Deposits) > 0 {
				x.Deposits[0].NoWitnessTx = garbage([]int{0, 93, 94, 200, 32*1024 + 1}[arg%5], arg)
			}
		case 5:
			if len(x.Deposits) > 0 {
				x.Deposits[0].EvmAddress = garbage([]int{0, 19, 21}[arg%3], arg)
			}
		case 6:
			for i := 0; i < 17 && len(x.Deposits) > 0; i++ {
				x.Deposits = append(x.Deposits, x.Deposits[0])
			}
		case 7:
			if len(x.BlockHeaders) > 0 {
				x.BlockHeaders[0].Raw = garbage([]int{0, 79, 81}[arg%3], arg)
			}
		}
	case *bitcointypes.MsgFinalizeWithdrawal:
		switch k % 8 {
		case 1:
			x.BlockHeader = garbage([]int{0, 35, 67, 79, 81}[arg%5], arg)
		case 2:
			x.Txid = garbage([]int{0, 31, 33}[arg%3], arg)
		case 3:
			x.IntermediateProof = garbage([]int{0, 1, 31, 33, 32 * 40}[arg%5], arg)
		case 4:
			x.TxIndex = []uint32{0, ^uint32(0)}[arg%2]
		case 5:
			x.Pid, x.BlockNumber = ^uint64(0), ^uint64(0)
		}
	case *bitcointypes.MsgApproveCancellation:
		switch k % 4 {
		case 1:
			x.Id = nil
		case 2:
			x.Id = make([]uint64, []int{33, 5000}[arg%2])
		case 3:
			x.Id = []uint64{^uint64(0), 0, 1, 1}
		}
	case *relayertypes.MsgNewVoterRequest:
		switch k % 5 {
		case 1:
			x.VoterBlsKey = garbage([]int{0, 48, 95, 97}[arg%4], arg)
		case 2:
			x.VoterTxKey = garbage([]int{0, 32, 33, 65}[arg%4], arg)
		case 3:
			x.VoterTxKeyProof = garbage([]int{0, 63, 64, 65}[arg%4], arg)
		case 4:
			x.VoterBlsKeyProof = garbage([]int{0, 47, 48, 96}[arg%4], arg)
		}
	case *relayertypes.MsgAcceptProposerRequest:
		if k%2 == 1 {
			x.Epoch = ^uint64(0)
		}
	case *goatmodtypes.MsgNewEthBlock:
		p := x.Payload
		switch k % 19 {
		case 16:
			// no transactions at all although system transactions are due; the count byte says 0
			p.Transactions = nil
			if len(p.ExtraData) > 0 {
				p.ExtraData = append([]byte{0}, p.ExtraData[1:]...)
			}
		case 17:
			// one due system transaction fewer, count byte adjusted
			if len(p.ExtraData) > 0 && p.ExtraData[0] > 0 && len(p.Transactions) > 0 {
				i := arg % int(p.ExtraData[0])
				p.Transactions = append(append([][]byte{}, p.Transactions[:i]...), p.Transactions[i+1:]...)
				p.ExtraData = append([]byte{p.ExtraData[0] - 1}, p.ExtraData[1:]...)
			}
		case 18:
			// the list is cut below the count byte
			if len(p.Transactions) > 0 {
				p.Transactions = p.Transactions[:len(p.Transactions)-1-arg%len(p.Transactions)]
			}
		case 1:
			x.Payload = nil
		case 2:
			p.ParentHash = garbage([]int{0, 31, 33}[arg%3], arg)
		case 3:
			p.FeeRecipient = garbage([]int{0, 19, 21}[arg%3], arg)
		case 4:
			p.ExtraData = garbage([]int{0, 1, 32, 34}[arg%4], arg)
		case 5:
			p.ExtraData = append([]byte{255}, p.ExtraData[1:]...)
		case 6:
			p.LogsBloom = nil
		case 7:
			p.BaseFeePerGas = math.Int{}
		case 8:
			p.Transactions = [][]byte{nil, {}, garbage(3, arg)}
		case 9:
			p.Requests = [][]byte{nil}
		case 10:
			p.Requests = [][]byte{{}}
		case 11:
			p.Requests = append(p.Requests, garbage(1+arg%200, arg))
		case 12:
			for i := 0; i < 300; i++ {
				p.Requests = append(p.Requests, []byte{goattypes.GasRequestType})
			}
		case 13:
			p.BeaconRoot = nil
		case 14:
			p.BlockHash = garbage([]int{0, 31, 33}[arg%3], arg)
		case 15:
			p.BlockNumber, p.Timestamp, p.BlobGasUsed = ^uint64(0), ^uint64(0), ^uint64(0)
		}
	}
	return m
}

// safeTx signs the message; a message the SDK cannot even encode (nil list
// element) cannot arrive over the wire either.
func safeTx(n *world.Node, signer world.Account, o world.TxOpts, msg sdk.Msg) (raw []byte, err error) {
	defer func() {
		if r := recover(); r != nil {
			err = fmt.Errorf("unencodable: %v", r)
		}
	}()
	return n.Tx(signer, 0, o, msg)
}

func mutateBytes(raw []byte, kind int, arg uint64) []byte {
	if len(raw) == 0 {
		return raw
	}
	switch kind % 6 {
	case 1:
		return raw[:arg%uint64(len(raw))]
	case 2:
		out := append([]byte{}, raw...)
		bit := arg % uint64(len(out)*8)
		out[bit/8] ^= 1 << (bit % 8)
		return out
	case 3:
		return append(append([]byte{}, raw...), garbage(int(arg%64)+1, int(arg))...)
	case 4:
		return garbage(int(arg%512), int(arg>>9))
	case 5:
		i := arg % uint64(len(raw))
		j := i + (arg>>20)%64
		if j > uint64(len(raw)) {
			j = uint64(len(raw))
		}
		return append(append(append([]byte{}, raw[:j]...), raw[i:j]...), raw[j:]...)
	}
	return raw
}

func runTxMutCase(c TxMutCase) Outcome {
	o := Outcome{}
	// in a third of the cases elections rotate the proposer every 20 s of block time (no accept timeout): a freshly
	// elected proposer has not accepted its role, and a failing transaction of it must not flip that flag either
	period := 1000 * time.Hour
	if c.Unaccepted {
		period = 20 * time.Second
		o.Classes = append(o.Classes, "rotating-proposer")
	}
	f, err := newVoteFixtureWith(c.N, 1, 1, false, period, 0)
	if err != nil {
		o.Fail = failf("fixture", "fixture-failed", "%v", err)
		return o
	}
	defer f.close()
	sim := f.sim
	for ti, tm := range c.Txs {
		rv, err := sim.Node.RelayerView()
		if err != nil {
			o.Fail = failf("query", "query-failed", "%v", err)
			return o
		}
		relProp := f.memberAcc(rv.Proposer)
		if abs(tm.Base)%len(baseNames) == 10 {
			// make system transactions due in the block whose message is mutated: two refunds of undecodable addresses
			br := goattypes.BridgeRequests{}
			for j := 0; j < 2; j++ {
				id := uint64(5000 + 2*ti + j)
				br.Withdraws = append(br.Withdraws, &goattypes.WithdrawalRequest{Id: id, Amount: 5000, TxPrice: 2, Address: fmt.Sprintf("garbage-%d", id)})
			}
			if _, err := sim.Step(world.StepOpts{DT: time.Second, Proposer: -1, Eth: world.EthBlockOpts{Plan: world.BuildPlan{Requests: br.Encode()}}}); err != nil {
				o.Fail = failf("block-processing", "block-failed", "%v", err)
				return o
			}
		}
		blk, ethTxs, err := sim.Begin(world.StepOpts{DT: 5 * time.Second, Proposer: -1})
		if err != nil {
			o.Fail = failf("fixture", "begin-failed", "%v", err)
			return o
		}
		base := abs(tm.Base) % len(baseNames)
		if base == 11 {
			// one transaction registers a new bridge key twice (two genuine votes, consecutive sequences): the second
			// message fails ("already exists"), so the whole transaction fails and the first registration is void.
			// Afterwards the same registration, alone, must be accepted.
			body := f.bodyPubkey()
			m1, err1 := f.honestMsg(body, rv)
			rv2 := rv
			rv2.Sequence++
			m2, err2 := f.honestMsg(body, rv2)
			if err1 != nil || err2 != nil {
				o.Fail = failf("fixture", "vote-build-failed", "%v %v", err1, err2)
				return o
			}
			raw, err := sim.Node.Tx(relProp, 0, world.TxOpts{}, m1, m2)
			if err != nil {
				o.Fail = failf("fixture", "tx-build-failed", "%v", err)
				return o
			}
			where := fmt.Sprintf("tx %d (two registrations of one key in one transaction)", ti)
			tw, err := sim.ExecTwin(blk, ethTxs, append(append([][]byte{}, ethTxs...), raw))
			if err != nil {
				o.Fail = failf("blocks-never-fail", "block-failed-on-malformed-tx", "%s: %v", where, err)
				return o
			}
			if res := tw.With.TxResults[len(tw.With.TxResults)-1]; res.Code == 0 {
				o.Fail = failf("failed-changes-nothing", "double-registration-accepted", "%s: accepted", where)
				return o
			}
			if tw.DumpWith.Hash() != tw.DumpWithout.Hash() {
				o.Fail = failf("failed-changes-nothing", "failed-transaction-changed-state", "%s: module state differs from the block without it: %v", where, tw.DumpWith.Diff(tw.DumpWithout))
				return o
			}
			// (an election at the end of the failing block may have changed epoch and proposer)
			rv3, err := sim.Node.RelayerView()
			if err != nil {
				o.Fail = failf("query", "query-failed", "%v", err)
				return o
			}
			m3, err := f.honestMsg(body, rv3)
			if err != nil {
				o.Fail = failf("fixture", "vote-build-failed", "%v", err)
				return o
			}
			raw3, err := sim.Node.Tx(f.memberAcc(rv3.Proposer), 0, world.TxOpts{}, m3)
			if err != nil {
				o.Fail = failf("fixture", "tx-build-failed", "%v", err)
				return o
			}
			r, err := sim.Step(world.StepOpts{DT: time.Second, Proposer: -1, Txs: [][]byte{raw3}})
			if err != nil {
				o.Fail = failf("blocks-never-fail", "block-failed-after-malformed-input", "%s: %v", where, err)
				return o
			}
			if res := r.Resp.TxResults[1]; res.Code != 0 {
				o.Fail = failf("failed-changes-nothing", "failed-transaction-affects-later-ones", "%s: after the failed transaction the same registration, alone, is refused: %s", where, res.Log)
				return o
			}
			f.consume(body)
			o.Classes = append(o.Classes, "rolled-back-registration")
			o.NonTrivial = true
			o.Evals++
			continue
		}
		var msg sdk.Msg
		signer := relProp
		opts := world.TxOpts{}
		switch base {
		case 0, 1, 2, 3, 4:
			if base == 2 && len(f.pending) == 0 {
				base = 4
			}
			m, err := f.honestMsg(f.body(base, tm.Arg), rv)
			if err != nil {
				o.Fail = failf("fixture", "vote-build-failed", "%v", err)
				return o
			}
			msg = m
		case 5:
			b := buildDepBlock(DepBlock{Depth: 3, NTx: 3, Pos: 1, Value: 50_000, EvmSeed: tm.Arg}, []KeySpec{{Idx: 0}}, []byte("GTT0"))
			msg = &bitcointypes.MsgNewDeposits{Proposer: rv.Proposer, BlockHeaders: []*bitcointypes.BlockHeader{b.header()}, Deposits: []*bitcointypes.Deposit{b.deposit()}}
		case 6:
			msg = &bitcointypes.MsgFinalizeWithdrawal{Proposer: rv.Proposer, Pid: f.pid, Txid: world.DSha([]byte{byte(tm.Arg)}), BlockNumber: 100, TxIndex: 1,
				IntermediateProof: garbage(64, tm.Arg), BlockHeader: garbage(80, tm.Arg)}
		case 7:
			msg = &bitcointypes.MsgApproveCancellation{Proposer: rv.Proposer, Id: []uint64{10, 11}}
		case 8:
			acc, bls := world.RelayerMember(9)
			msg = &relayertypes.MsgNewVoterRequest{Proposer: rv.Proposer, VoterBlsKey: bls.PK, VoterTxKey: acc.PubKey().Key,
				VoterTxKeyProof: garbage(64, tm.Arg), VoterBlsKeyProof: bls.Sign([]byte("x"))}
		case 9:
			msg = &relayertypes.MsgAcceptProposerRequest{Proposer: rv.Proposer, Epoch: rv.Epoch}
		case 10:
			_, m, err := decodeEthBlockTx(sim.Node, ethTxs[0])
			if err != nil {
				o.Fail = failf("fixture", "eth-decode-failed", "%v", err)
				return o
			}
			msg = m
			signer = sim.Keys[string(blk.Proposer)]
			opts.TimeoutHeight = uint64(blk.Height)
		}
		msg = mutateMsg(msg, abs(tm.Mut), abs(tm.Arg))
		raw, err := safeTx(sim.Node, signer, opts, msg)
		if err != nil {
			// the SDK refuses to encode it (e.g. a nil element): such bytes cannot be produced
			o.Classes = append(o.Classes, "unencodable")
			continue
		}
		if abs(tm.ByteMut) == 6 {
			// one field of the message (for the block message: of its payload) is absent on the wire, behind a valid
			// signature - fields the Go types always encode decode to zero values the code may never have seen
			path, nf := []int{1, 2}, 10
			if base == 10 {
				path, nf = []int{1, 2, 2}, 18
			}
			if num, _, ok := sim.Node.AccountInfo(signer.Addr()); ok {
				if cut, err := world.ResignWithBody(raw, sim.Node.ChainID, num, signer, func(body []byte) ([]byte, bool) {
					return world.DropProtoField(body, path, 1+int(tm.ByteArg%uint64(nf)))
				}); err == nil {
					raw = cut
					o.Classes = append(o.Classes, "field-absent-on-the-wire")
				}
			}
		} else {
			raw = mutateBytes(raw, abs(tm.ByteMut), tm.ByteArg)
		}
		mode := abs(tm.Mode) % 4
		o.Classes = append(o.Classes, fmt.Sprintf("%s/mode%d", baseNames[base], mode))
		where := fmt.Sprintf("tx %d (%s, mutation %d/%d, bytes %d, mode %d)", ti, baseNames[base], abs(tm.Mut), abs(tm.Arg), abs(tm.ByteMut)%6, mode)
		honest := ethTxs
		switch mode {
		case 0:
			if _, err := sim.Node.CheckTx(raw, false); err != nil {
				o.Fail = failf("no-crash", "checktx-crashed", "%s: %v", where, err)
				return o
			}
		case 1, 2:
			txs := append(append([][]byte{}, honest...), raw)
			if mode == 2 {
				txs = [][]byte{raw}
			}
			if _, err := sim.Node.Process(blk.ProcessReq(txs)); err != nil {
				o.Fail = failf("no-crash", "process-crashed", "%s: %v", where, err)
				return o
			}
		}
		if mode == 3 && base == 10 {
			// a block is only ever finalised after two thirds of the validators accepted it in
			// ProcessProposal: a mutated block message is force-finalised only if it passes that check
			pp, err := sim.Node.Process(blk.ProcessReq([][]byte{raw}))
			if err != nil {
				o.Fail = failf("no-crash", "process-crashed", "%s: %v", where, err)
				return o
			}
			if pp.Status != abci.ResponseProcessProposal_ACCEPT {
				mode = 2
				o.Classes = append(o.Classes, "block-message-rejected")
			}
		}
		if mode == 3 {
			with := append(append([][]byte{}, honest...), raw)
			if base == 10 {
				with = [][]byte{raw} // the mutated block message takes the place of the honest one
			}
			without := honest
			if base == 10 {
				without = nil
			}
			tw, err := sim.ExecTwin(blk, without, with)
			if err != nil {
				o.Fail = failf("blocks-never-fail", "block-failed-on-malformed-tx", "%s: %v", where, err)
				return o
			}
			res := tw.With.TxResults[len(tw.With.TxResults)-1]
			if res.Code != 0 {
				o.NonTrivial = o.NonTrivial || res.Codespace != "sdk" || res.Code > 2
				if tw.DumpWith.Hash() != tw.DumpWithout.Hash() {
					o.Fail = failf("failed-changes-nothing", "failed-transaction-changed-state", "%s: code %d (%s) but module state differs from the block without it: %v", where, res.Code, res.Log, tw.DumpWith.Diff(tw.DumpWithout))
					return o
				}
			} else {
				o.Classes = append(o.Classes, "applied")
				o.NonTrivial = true
				if v := voteOf(msg); v != nil && base <= 4 {
					// keep the fixture in step with what was consumed
					switch x := msg.(type) {
					case *bitcointypes.MsgProcessWithdrawal:
						f.consume(voteBody{kind: kindProcess, ids: x.Id, fee: x.TxFee})
					case *bitcointypes.MsgReplaceWithdrawal:
						f.consume(voteBody{kind: kindReplace, fee: x.NewTxFee})
					case *bitcointypes.MsgNewPubkey:
						f.consume(voteBody{kind: kindPubkey, pubkey: x.Pubkey})
					}
				}
			}
		} else {
			// the chain goes on
			if _, err := sim.Exec(blk, honest, false); err != nil {
				o.Fail = failf("blocks-never-fail", "block-failed-after-malformed-input", "%s: %v", where, err)
				return o
			}
		}
		o.Evals++
	}
	// the node's mempool holds whatever CheckTx admitted, some of it stale by now (sequence consumed, height passed):
	// the real proposal builder must return, and what it builds must be accepted and executed
	{
		// one more pooled transaction that is valid now and expires with the next block
		if rv, err := sim.Node.RelayerView(); err == nil {
			rp := f.memberAcc(rv.Proposer)
			if raw, err := sim.Node.Tx(rp, 0, world.TxOpts{TimeoutHeight: uint64(sim.Chain.Height + 1)}, &bitcointypes.MsgApproveCancellation{Proposer: rv.Proposer, Id: []uint64{950_000}}); err == nil {
				if resp, err := sim.Node.CheckTx(raw, false); err == nil && resp.Code == 0 {
					o.Classes = append(o.Classes, "expiring-tx-pooled")
				}
			}
			if _, err := sim.Step(world.StepOpts{DT: time.Second, Proposer: -1}); err != nil {
				o.Fail = failf("blocks-never-fail", "block-failed-after-malformed-input", "follow-up block: %v", err)
				return o
			}
		}
		blk := sim.Chain.NextBlock(5*time.Second, -1, nil, nil)
		pr, err := sim.Node.Prepare(blk.PrepareReq(nil))
		if err != nil {
			o.Fail = failf("no-crash", "prepare-failed-or-hung", "PrepareProposal over the mempool left by the case: %v", err)
			return o
		}
		o.Classes = append(o.Classes, fmt.Sprintf("final-prepare/txs=%d", min(len(pr.Txs), 3)))
		if len(pr.Txs) > 0 {
			if _, m, _ := decodeEthBlockTx(sim.Node, pr.Txs[0]); m != nil {
				r, err := sim.Exec(blk, pr.Txs, true)
				if err != nil {
					o.Fail = failf("blocks-never-fail", "block-failed-after-malformed-input", "the node's own proposal: %v", err)
					return o
				}
				if r.Resp.TxResults[0].Code != 0 {
					o.Fail = failf("blocks-never-fail", "honest-eth-message-failed", "the node's own proposal: %s", r.Resp.TxResults[0].Log)
					return o
				}
			}
		}
	}
	// a few more honest blocks
	for i := 0; i < 2; i++ {
		r, err := sim.Step(world.StepOpts{DT: 5 * time.Second, Proposer: -1})
		if err != nil {
			o.Fail = failf("blocks-never-fail", "block-failed-after-malformed-input", "follow-up block: %v", err)
			return o
		}
		if r.Resp.TxResults[0].Code != 0 {
			o.Fail = failf("blocks-never-fail", "honest-eth-message-failed", "follow-up block: %s", r.Resp.TxResults[0].Log)
			return o
		}
	}
	return o
}

func TestC19_TxMutation(t *testing.T) {
	RunProp(t, Prop[TxMutCase]{
		ID: "C19", Name: "tx-mutation", Quick: 480, Thor: 16_000, WAL: true,
		Gen: func(t *rapid.T) TxMutCase {
			c := TxMutCase{N: rapid.IntRange(0, 3).Draw(t, "n"), Unaccepted: rapid.IntRange(0, 2).Draw(t, "unaccepted") == 0}
			k := rapid.IntRange(4, 24).Draw(t, "ntx")
			for i := 0; i < k; i++ {
				tm := TxMut{Base: int(mix64(rapid.Uint64().Draw(t, "base")) % uint64(len(baseNames))), Arg: rapid.IntRange(0, 1<<16).Draw(t, "arg"),
					Mode: rapid.SampledFrom([]int{0, 1, 2, 3, 3, 3}).Draw(t, "mode")}
				if rapid.IntRange(0, 4).Draw(t, "structural") > 0 {
					tm.Mut = 1 + int(mix64(rapid.Uint64().Draw(t, "mut"))%18)
				}
				if rapid.IntRange(0, 3).Draw(t, "bytes") == 0 {
					tm.ByteMut = rapid.SampledFrom([]int{1, 2, 3, 4, 5, 6, 6, 6}).Draw(t, "byteMut")
					tm.ByteArg = rapid.Uint64().Draw(t, "byteArg")
				}
				if tm.Base%len(baseNames) == 10 && rapid.IntRange(0, 2).Draw(t, "cutPayloadField") == 0 {
					// the block message with one payload field absent on the wire, otherwise untouched, through ProcessProposal
					tm.Mut, tm.ByteMut, tm.ByteArg = 0, 6, uint64(rapid.IntRange(0, 17).Draw(t, "cutField"))
					tm.Mode = rapid.SampledFrom([]int{2, 2, 3}).Draw(t, "cutMode")
				}
				c.Txs = append(c.Txs, tm)
			}
			return c
		},
		Run:  runTxMutCase,
		Rule: "on a live chain with pending and processing withdrawals: a well-formed message of each of the 11 relayer/bridge/block message types receives one structural mutation (nil vote / key / payload, bitmap lengths 1..255, signature lengths 0..96, nil and mis-sized list elements, over-long lists, garbage Bitcoin transactions and headers, mis-sized hashes and addresses, extreme integers, malformed request lists, count byte 255, due system transactions dropped / the list cut below the count byte while refunds are due) and/or a byte-level mutation of the signed transaction (truncate, bit flip, append, random bytes, repeated chunk, or one field cut out of the encoding and the transaction signed again) and is delivered through CheckTx, ProcessProposal (as a later and as the first transaction) or FinalizeBlock; the process must stay alive (write-ahead case file), every call must return, FinalizeBlock must not fail in that block nor in the following ones, and a transaction with a non-zero code must leave the four module stores identical to the twin execution without it; non-trivial = the input passed decoding and reached a handler (or was applied); evaluations count inputs; at the end of every case the real PrepareProposal runs over the mempool the case left behind (stale transactions included), must return within the watchdog time and its proposal must be accepted and executed; one more input kind registers a fresh bridge key twice in one transaction (the second message fails, so the transaction fails as a whole) and then requires the same registration, alone, to be accepted",
	})
}

// ---- arbitrary decodable request lists ----

type ReqList struct {
	Type    int    `json:"type"`
	Count   int    `json:"count"`
	Seed    uint64 `json:"seed"`
	Pattern int    `json:"pattern"` // 0 random, 1 zeros, 2 0xff, 3 references to existing validators/tokens
	Trunc   int    `json:"trunc"`   // bytes dropped from the end
}

type ReqCase struct {
	Lock  LockCase    `json:"lock"`  // a short locking history first
	Lists [][]ReqList `json:"lists"` // per block
	Valid []bool      `json:"valid"` // per block: build every list so that it is individually acceptable (the whole message applies)
	Mask  bool        `json:"mask"`  // mask amounts to 128 bits (multi-block regime)
}

var reqRecordLen = map[byte]int{
	goattypes.GasRequestType: 40, goattypes.CreateRequestType: 84, goattypes.LockRequestType: 72, goattypes.UnlockRequestType: 100,
	goattypes.ClaimRequestType: 48, goattypes.GrantRequestType: 32, goattypes.UpdateTokenWeightRequestType: 28, goattypes.UpdateTokenThresholdRequestType: 52,
	goattypes.WithdrawalRequestType: 60, goattypes.ReplaceByFeeRequestType: 16, goattypes.Cancel1RequestType: 8, goattypes.DepositTaxRequestType: 16,
	goattypes.ConfirmationNumberRequestType: 8, goattypes.MinDepositRequestType: 8, goattypes.AddVoterRequestType: 52, goattypes.RemoveVoterRequestType: 20,
}

var reqTypes = []byte{goattypes.CreateRequestType, goattypes.LockRequestType, goattypes.UnlockRequestType, goattypes.ClaimRequestType, goattypes.GrantRequestType,
	goattypes.UpdateTokenWeightRequestType, goattypes.UpdateTokenThresholdRequestType, goattypes.WithdrawalRequestType, goattypes.ReplaceByFeeRequestType,
	goattypes.Cancel1RequestType, goattypes.DepositTaxRequestType, goattypes.ConfirmationNumberRequestType, goattypes.MinDepositRequestType,
	goattypes.AddVoterRequestType, goattypes.RemoveVoterRequestType, goattypes.GasRequestType,
	goattypes.CreateRequestType, goattypes.LockRequestType, goattypes.UnlockRequestType, goattypes.ClaimRequestType, goattypes.GrantRequestType,
	goattypes.UpdateTokenWeightRequestType, goattypes.UpdateTokenThresholdRequestType, goattypes.DepositTaxRequestType, goattypes.MinDepositRequestType,
	goattypes.AddVoterRequestType, goattypes.RemoveVoterRequestType, 8, 17, 22, 255}

// validReqTypes can be made individually acceptable by planting references to existing entities.
var validReqTypes = []byte{goattypes.CreateRequestType, goattypes.LockRequestType, goattypes.UnlockRequestType, goattypes.ClaimRequestType, goattypes.GrantRequestType,
	goattypes.UpdateTokenWeightRequestType, goattypes.UpdateTokenThresholdRequestType, goattypes.DepositTaxRequestType, goattypes.ConfirmationNumberRequestType,
	goattypes.MinDepositRequestType, goattypes.AddVoterRequestType, goattypes.RemoveVoterRequestType, goattypes.RemoveVoterRequestType}

func buildReqList(r ReqList, mask bool) []byte {
	return buildReqListMode(r, mask, false)
}

func buildReqListMode(r ReqList, mask, valid bool) []byte {
	ty := reqTypes[abs(r.Type)%len(reqTypes)]
	if valid {
		ty = validReqTypes[abs(r.Type)%len(validReqTypes)]
		r.Pattern, r.Trunc = 3, 0
	}
	rl := reqRecordLen[ty]
	if rl == 0 {
		rl = 16
	}
	out := []byte{ty}
	st := r.Seed
	next := func() byte {
		st = st*6364136223846793005 + 1442695040888963407
		return byte(st >> 56)
	}
	cnt := abs(r.Count) % 40
	for i := 0; i < cnt; i++ {
		rec := make([]byte, rl)
		switch r.Pattern % 4 {
		case 0:
			for j := range rec {
				rec[j] = next()
			}
		case 2:
			for j := range rec {
				rec[j] = 0xff
			}
		case 3:
			for j := range rec {
				rec[j] = next()
			}
			// plant references to validators and tokens that exist
			// the anchor validator (index 0) is never unlocked and its token keeps its weight:
			// an empty validator set has no acceptable successor and is outside the statement
			v := valAccount(1 + int(next())%(lockUniverse-1)).EthAddr()
			tk := tokenAddrs[int(next())%len(tokenAddrs)]
			if ty == goattypes.UpdateTokenWeightRequestType {
				tk = tokenAddrs[1+int(next())%(len(tokenAddrs)-1)]
			}
			switch ty {
			case goattypes.LockRequestType:
				copy(rec[0:20], v[:])
				copy(rec[20:40], tk[:])
			case goattypes.UnlockRequestType:
				copy(rec[8:28], v[:])
				copy(rec[48:68], tk[:])
			case goattypes.ClaimRequestType:
				copy(rec[8:28], v[:])
			case goattypes.UpdateTokenWeightRequestType, goattypes.UpdateTokenThresholdRequestType:
				copy(rec[0:20], tk[:])
			case goattypes.AddVoterRequestType, goattypes.RemoveVoterRequestType:
				m, _ := world.RelayerMember(int(next()) % 5)
				copy(rec[0:20], m.EthAddr().Bytes())
			case goattypes.CreateRequestType:
				a := valAccount(int(next()) % lockUniverse)
				pk := a.Uncompressed64()
				copy(rec[0:20], a.EthAddr().Bytes())
				copy(rec[20:84], pk[:])
			}
		}
		if ty == goattypes.UpdateTokenWeightRequestType && bytes.Equal(rec[0:20], make([]byte, 20)) && binary.LittleEndian.Uint64(rec[20:28]) == 0 {
			rec[20] = 1 // the anchor's token (the zero address) keeps a weight: see the restriction above
		}
		if valid {
			// keep voting power within uint64: amounts below 2^80
			switch ty {
			case goattypes.LockRequestType, goattypes.UnlockRequestType, goattypes.GrantRequestType, goattypes.UpdateTokenThresholdRequestType:
				for j := rl - 32; j < rl-10; j++ {
					rec[j] = 0
				}
			}
		}
		if mask {
			// amounts are 32-byte big-endian fields at the end of lock/unlock/grant/threshold/gas records: keep them below 2^128
			switch ty {
			case goattypes.LockRequestType, goattypes.UnlockRequestType, goattypes.GrantRequestType, goattypes.UpdateTokenThresholdRequestType, goattypes.GasRequestType:
				for j := rl - 32; j < rl-16; j++ {
					rec[j] = 0
				}
			case goattypes.UpdateTokenWeightRequestType:
				// weights: keep total voting power far below CometBFT's limit
				binary.LittleEndian.PutUint64(rec[20:28], binary.LittleEndian.Uint64(rec[20:28])%(1<<20))
			}
		}
		out = append(out, rec...)
	}
	if t := abs(r.Trunc); t > 0 && len(out) > 1 {
		out = out[:len(out)-t%(len(out)-1)]
	}
	return out
}

func runReqCase(c ReqCase) Outcome {
	o := Outcome{}
	lockElectingPeriod = 90 * time.Second // elections happen during the follow-up blocks
	defer func() { lockElectingPeriod = 1000 * time.Hour }()
	w, err := newLockWorld(c.Lock)
	if err != nil {
		o.Fail = failf("fixture", "fixture-failed", "%v", err)
		return o
	}
	defer w.close()
	for i, lb := range c.Lock.Blocks {
		if err := w.step(i, lb); err != nil {
			o.Classes = append(o.Classes, "aborted:block-failed")
			return o
		}
	}
	sim := w.sim
	for bi, lists := range c.Lists {
		var reqs [][]byte
		valid := bi < len(c.Valid) && c.Valid[bi]
		seenType := map[byte]bool{}
		for _, r := range lists {
			l := buildReqListMode(r, c.Mask, valid)
			if valid {
				// the execution layer emits one list per type
				if len(l) < 2 || seenType[l[0]] {
					continue
				}
				seenType[l[0]] = true
			}
			reqs = append(reqs, l)
		}
		if valid {
			o.Classes = append(o.Classes, "valid-biased")
		}
		blk, txs, err := sim.Begin(world.StepOpts{DT: 5 * time.Second, Proposer: -1, Eth: world.EthBlockOpts{Plan: world.BuildPlan{Requests: reqs, GasAmount: big.NewInt(int64(bi))}}})
		if err != nil {
			o.Fail = failf("fixture", "begin-failed", "%v", err)
			return o
		}
		pp, err := sim.Node.Process(blk.ProcessReq(txs))
		if err != nil {
			o.Fail = failf("no-crash", "process-crashed", "block %d: %v", bi, err)
			return o
		}
		_ = pp
		var empty [][]byte
		tw, err := sim.ExecTwin(blk, empty, txs)
		if err != nil {
			o.Fail = failf("blocks-never-fail", "block-failed-on-request-list/"+classifyHalt(err.Error()), "block %d with %d request lists: %v", bi, len(reqs), err)
			return o
		}
		o.Evals++
		res := tw.With.TxResults[0]
		if res.Code != 0 {
			o.Classes = append(o.Classes, "message-failed")
			if tw.DumpWith.Hash() != tw.DumpWithout.Hash() {
				o.Fail = failf("failed-changes-nothing", "failed-eth-message-changed-state", "block %d: the execution-block message failed (%s) but module state differs from the block without it: %v", bi, res.Log, tw.DumpWith.Diff(tw.DumpWithout))
				return o
			}
			o.NonTrivial = true
		} else {
			o.Classes = append(o.Classes, "message-applied")
			o.NonTrivial = true
		}
	}
	for i := 0; i < 4; i++ {
		if _, err := sim.Step(world.StepOpts{DT: 50 * time.Second, Proposer: -1}); err != nil {
			o.Fail = failf("blocks-never-fail", "block-failed-after-request-list/"+classifyHalt(err.Error()), "follow-up block %d: %v", i, err)
			return o
		}
	}
	return o
}

func classifyHalt(s string) string {
	switch {
	case containsStr(s, "consensus engine rejects"):
		return "validator-updates-rejected"
	case containsStr(s, "panicked"):
		return "panic"
	case containsStr(s, "FinalizeBlock"):
		return "finalize-error"
	}
	return "other"
}

func TestC19_RequestLists(t *testing.T) {
	RunProp(t, Prop[ReqCase]{
		ID: "C19", Name: "request-lists", Quick: 320, Thor: 12_000, WAL: true,
		Gen: func(t *rapid.T) ReqCase {
			c := ReqCase{Lock: genLockCase("C19", 8)(t), Mask: true}
			nb := rapid.IntRange(1, 4).Draw(t, "nblocks")
			for i := 0; i < nb; i++ {
				var ls []ReqList
				k := rapid.SampledFrom([]int{1, 2, 3, 8, 30, 254}).Draw(t, "nlists")
				for j := 0; j < k; j++ {
					ls = append(ls, ReqList{Type: int(mix64(rapid.Uint64().Draw(t, "type")) % uint64(len(reqTypes))), Count: rapid.IntRange(0, 39).Draw(t, "count"),
						Seed: rapid.Uint64().Draw(t, "seed"), Pattern: rapid.SampledFrom([]int{0, 1, 2, 3, 3, 3, 3, 3}).Draw(t, "pattern"), Trunc: rapid.SampledFrom([]int{0, 0, 0, 1, 5, 33}).Draw(t, "trunc")})
				}
				c.Lists = append(c.Lists, ls)
				c.Valid = append(c.Valid, rapid.Bool().Draw(t, "valid"))
			}
			return c
		},
		Run:  runReqCase,
		Rule: "after a short generated locking history, 1-4 execution blocks carry 1-254 typed request lists (every known type byte and unknown ones; 0-39 records each of random bytes, zeros, 0xff or random bytes with planted references to existing validators and tokens; truncated tails) inside an otherwise honest execution-block message, followed by three empty blocks 30 s apart; ProcessProposal must return, FinalizeBlock must never fail, CometBFT must accept the validator updates, and a failed message must leave the module stores identical to the block without it; amounts are masked to 128 bits and weights to 20 bits in this multi-block regime; non-trivial = every case (the message is always reached); evaluations count blocks",
	})
}

var _ = bytes.Equal
var _ = abci.ResponseProcessProposal_ACCEPT
var _ = common.Address{}

// Request lists at states that need a history (jailed, exiting, tombstoned validators, matured unlocks, weight and
// threshold changes): the locking world of C11-C15, with only "block processing never fails" asserted.
func TestC19_LockingHistories(t *testing.T) {
	RunProp(t, Prop[LockCase]{
		ID: "C19", Name: "locking-histories", Quick: 480, Thor: 8000,
		Gen: genLockCase("C13", 30),
		Run: func(c LockCase) Outcome {
			o := runLocking(c, "C13", func(w *lockWorld, o *Outcome) *Failure { return nil }, nil)
			if o.Fail != nil && strings.HasPrefix(o.Fail.Signature, "consensus-engine-rejects-updates") {
				// what CometBFT accepts as a validator update is C13's subject
				o.Classes = append(o.Classes, "inner-oracle-failed")
				o.Fail = nil
			}
			o.NonTrivial = o.Evals >= 4
			return o
		},
		Rule: "locking-world histories (create/lock/unlock/claim/grant/weight/threshold requests incl. failing ones, absences, evidence, time jumps, restarts from the exported state, high initial heights): every FinalizeBlock must return without error, i.e. no request list makes begin-block, the block message or end-block fail at any reachable state; non-trivial = at least four blocks; evaluations count blocks",
	})
}
