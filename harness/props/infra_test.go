package props

// Shared plumbing of all properties: a property is (generator of a data-only
// Case, pure runCase) and this file drives it with rapid, records statistics,
// honours known findings, writes shrunk failures as JSON replay files and
// replays such files without rapid.

import (
	"crypto/sha256"
	"encoding/binary"
	"encoding/json"
	"flag"
	"fmt"
	"hash/fnv"
	"os"
	"path/filepath"
	"sort"
	"strconv"
	"strings"
	"sync"
	"testing"
	"verif/harness/world"

	"pgregory.net/rapid"
)

// Failure describes a violated invariant.
type Failure struct {
	Invariant string `json:"invariant"`
	Signature string `json:"signature"` // root-cause class; matched against known findings
	Detail    string `json:"detail"`
}

func failf(inv, sig, format string, a ...any) *Failure {
	return &Failure{Invariant: inv, Signature: sig, Detail: fmt.Sprintf(format, a...)}
}

// Outcome of running one case.
type Outcome struct {
	Fail         *Failure
	Classes      []string // histogram labels
	NonTrivial   bool
	Key          string // identity for distinctness ("" = JSON of the case)
	Evals        int    // number of elementary evaluations inside the case (0 = 1)
	Inconclusive bool   // machine-load dependent step could not be decided
}

// Prop is one generated-search property.
type Prop[C any] struct {
	ID    string // C04
	Name  string // sub-property
	Quick int    // rapid checks in the quick tier (total over all shards)
	Thor  int    // rapid checks in the thorough tier (total over all shards)
	Gen   func(t *rapid.T) C
	Run   func(c C) Outcome
	WAL   bool // write the case to a write-ahead file first (process-killing failures)
	Rule  string
}

type propStats struct {
	ID          string         `json:"id"`
	Name        string         `json:"name"`
	Rule        string         `json:"rule"`
	Evaluations int            `json:"evaluations"`
	Cases       int            `json:"cases"`
	NonTrivial  int            `json:"nontrivial"`
	Hashes      []uint64       `json:"hashes"`
	Saturated   bool           `json:"saturated"`
	Classes     map[string]int `json:"classes"`
	Samples     []any          `json:"samples"`
	Excluded    int            `json:"excluded_known"`
	Inconcl     int            `json:"inconclusive"`
	Requested   int            `json:"requested"`
	Exhaustive  bool           `json:"exhaustive"`
	hashSet     map[uint64]struct{}
	perClass    map[string]int
}

const maxHashes = 200_000

var (
	statsMu  sync.Mutex
	allStats = map[string]*propStats{}
)

func getStats(id, name, rule string) *propStats {
	statsMu.Lock()
	defer statsMu.Unlock()
	k := id + "/" + name
	s := allStats[k]
	if s == nil {
		s = &propStats{ID: id, Name: name, Rule: rule, Classes: map[string]int{}, hashSet: map[uint64]struct{}{}, perClass: map[string]int{}}
		allStats[k] = s
	}
	return s
}

func (s *propStats) record(c any, o Outcome) {
	statsMu.Lock()
	defer statsMu.Unlock()
	s.Cases++
	if o.Evals > 0 {
		s.Evaluations += o.Evals
	} else {
		s.Evaluations++
	}
	if o.Inconclusive {
		s.Inconcl++
	}
	for _, c := range o.Classes {
		s.Classes[c]++
	}
	if o.NonTrivial {
		s.NonTrivial++
		key := o.Key
		if key == "" {
			bz, _ := json.Marshal(c)
			key = string(bz)
		}
		h := fnv.New64a()
		h.Write([]byte(key))
		if len(s.hashSet) < maxHashes {
			s.hashSet[h.Sum64()] = struct{}{}
		} else {
			s.Saturated = true
		}
		cls := "-"
		if len(o.Classes) > 0 {
			cls = o.Classes[0]
		}
		if s.perClass[cls] < 2 && len(s.Samples) < 10 {
			s.perClass[cls]++
			s.Samples = append(s.Samples, map[string]any{"prop": s.Name, "classes": o.Classes, "case": truncJSON(c)})
		}
	}
}

func truncJSON(c any) any {
	bz, err := json.Marshal(c)
	if err != nil {
		return fmt.Sprintf("%v", c)
	}
	if len(bz) > 3000 {
		return string(bz[:3000]) + "...(truncated)"
	}
	return json.RawMessage(bz)
}

func writeStats() {
	p := os.Getenv("VERIF_STATS")
	if p == "" {
		return
	}
	statsMu.Lock()
	defer statsMu.Unlock()
	var out []*propStats
	for _, s := range allStats {
		s.Hashes = s.Hashes[:0]
		for h := range s.hashSet {
			s.Hashes = append(s.Hashes, h)
		}
		sort.Slice(s.Hashes, func(i, j int) bool { return s.Hashes[i] < s.Hashes[j] })
		out = append(out, s)
	}
	sort.Slice(out, func(i, j int) bool { return out[i].Name < out[j].Name })
	bz, _ := json.Marshal(out)
	_ = os.WriteFile(p, bz, 0o644)
}

func TestMain(m *testing.M) {
	flag.Parse()
	code := m.Run()
	writeStats()
	os.Exit(code)
}

// ---- tiers, shards, seeds ----

func envInt(name string, def int) int {
	if v := os.Getenv(name); v != "" {
		if n, err := strconv.Atoi(v); err == nil {
			return n
		}
	}
	return def
}

func tier() string {
	if t := os.Getenv("VERIF_TIER"); t != "" {
		return t
	}
	return "quick"
}

func shardInfo() (shard, shards int) {
	return envInt("VERIF_SHARD", 0), max(1, envInt("VERIF_SHARDS", 1))
}

func propSeed(name string) uint64 {
	seed := uint64(envInt("VERIF_SEED", 1))
	shard, _ := shardInfo()
	var b [16]byte
	binary.LittleEndian.PutUint64(b[:8], seed)
	binary.LittleEndian.PutUint64(b[8:], uint64(shard))
	h := sha256.Sum256(append(b[:], name...))
	s := binary.LittleEndian.Uint64(h[:8]) >> 1 // rapid takes an int flag
	if s == 0 {
		s = 1 // rapid treats 0 as "random"
	}
	return s
}

// checksFor splits the tier's total over the shards.
func checksFor(quick, thor int) int {
	total := quick
	if tier() == "thorough" {
		total = thor
	}
	if v := os.Getenv("VERIF_SCALE"); v != "" {
		if f, err := strconv.ParseFloat(v, 64); err == nil {
			total = int(float64(total) * f)
		}
	}
	_, shards := shardInfo()
	n := (total + shards - 1) / shards
	if n < 1 {
		n = 1
	}
	return n
}

// ---- known findings ----

type knownFinding struct {
	Property    string `json:"property"`
	Kind        string `json:"kind"` // known | fixed
	Signature   string `json:"signature"`
	Replay      string `json:"replay"`
	Description string `json:"description"`
	Commit      string `json:"commit,omitempty"`
}

var (
	knownOnce sync.Once
	knownSigs map[string]bool
)

func isKnown(id, sig string) bool {
	knownOnce.Do(func() {
		knownSigs = map[string]bool{}
		p := os.Getenv("VERIF_KNOWN")
		if p == "" {
			p = "/verif/known_findings.json"
		}
		bz, err := os.ReadFile(p)
		if err != nil {
			return
		}
		var f struct {
			Findings []knownFinding `json:"findings"`
		}
		if json.Unmarshal(bz, &f) != nil {
			return
		}
		for _, k := range f.Findings {
			if k.Kind == "known" {
				knownSigs[k.Property+"|"+k.Signature] = true
			}
		}
	})
	return knownSigs[id+"|"+sig]
}

// ---- replay files ----

type replayFile struct {
	Property string          `json:"property"`
	Prop     string          `json:"prop"`
	Seed     int             `json:"seed"`
	Failure  *Failure        `json:"failure,omitempty"`
	Case     json.RawMessage `json:"case"`
}

func failDir() string {
	d := os.Getenv("VERIF_FAILDIR")
	if d == "" {
		d = filepath.Join(os.TempDir(), "verif-fail")
	}
	_ = os.MkdirAll(d, 0o755)
	return d
}

func saveFailure[C any](p Prop[C], c C, f *Failure) string {
	bz, _ := json.Marshal(c)
	rf := replayFile{Property: p.ID, Prop: p.Name, Seed: envInt("VERIF_SEED", 1), Failure: f, Case: bz}
	out, _ := json.MarshalIndent(rf, "", " ")
	shard, _ := shardInfo()
	// one file per (prop, shard): rapid re-runs the minimal case last, so the
	// file left behind is the shrunk one.
	path := filepath.Join(failDir(), fmt.Sprintf("%s-%s-s%d.json", p.ID, p.Name, shard))
	_ = os.WriteFile(path, out, 0o644)
	return path
}

// RunProp is the single entry point used by every TestCxx function.
func RunProp[C any](t *testing.T, p Prop[C]) {
	t.Helper()
	if rp := os.Getenv("VERIF_REPLAY"); rp != "" {
		bz, err := os.ReadFile(rp)
		if err != nil {
			t.Fatalf("replay: %v", err)
		}
		var rf replayFile
		if err := json.Unmarshal(bz, &rf); err != nil {
			t.Fatalf("replay: %v", err)
		}
		if rf.Property != p.ID || rf.Prop != p.Name {
			t.Skip("replay file is for another property")
		}
		var c C
		if err := json.Unmarshal(rf.Case, &c); err != nil {
			t.Fatalf("replay case: %v", err)
		}
		world.OnHang = func(what string) {
			fmt.Printf("\nfatal error: %s\n", what)
			os.Exit(3)
		}
		o := p.Run(c)
		if o.Fail != nil {
			fmt.Printf("REPLAY-FAIL property=%s prop=%s signature=%s invariant=%s detail=%s\n", p.ID, p.Name, o.Fail.Signature, o.Fail.Invariant, oneLine(o.Fail.Detail))
			t.Fatalf("replay reproduces: %s: %s", o.Fail.Invariant, o.Fail.Detail)
		}
		fmt.Printf("REPLAY-PASS property=%s prop=%s\n", p.ID, p.Name)
		return
	}
	if only := os.Getenv("VERIF_ONLY"); only != "" && !strings.Contains(","+only+",", ","+p.Name+",") {
		t.Skip("not selected")
	}
	st := getStats(p.ID, p.Name, p.Rule)
	n := checksFor(p.Quick, p.Thor)
	st.Requested = n
	_ = flag.Set("rapid.checks", strconv.Itoa(n))
	_ = flag.Set("rapid.seed", strconv.FormatUint(propSeed(p.Name), 10))
	_ = flag.Set("rapid.nofailfile", "true")
	if v := os.Getenv("VERIF_SHRINKTIME"); v != "" {
		_ = flag.Set("rapid.shrinktime", v)
	} else {
		_ = flag.Set("rapid.shrinktime", "20s")
	}
	shard, _ := shardInfo()
	wal := filepath.Join(failDir(), fmt.Sprintf("wal-%s-%s-s%d.json", p.ID, p.Name, shard))
	rapid.Check(t, func(rt *rapid.T) {
		c := p.Gen(rt)
		// a call into the application that never returns: record the case the way a crash is recorded and end the process
		world.OnHang = func(what string) {
			bz, _ := json.Marshal(c)
			out, _ := json.Marshal(replayFile{Property: p.ID, Prop: p.Name, Seed: envInt("VERIF_SEED", 1), Case: bz})
			_ = os.WriteFile(wal, out, 0o644)
			fmt.Printf("\nfatal error: %s\n", what)
			writeStats() // what was explored before the hang still counts
			os.Exit(3)
		}
		if p.WAL {
			bz, _ := json.Marshal(c)
			out, _ := json.Marshal(replayFile{Property: p.ID, Prop: p.Name, Seed: envInt("VERIF_SEED", 1), Case: bz})
			_ = os.WriteFile(wal, out, 0o644)
		}
		o := p.Run(c)
		if o.Fail != nil && isKnown(p.ID, o.Fail.Signature) {
			statsMu.Lock()
			st.Excluded++
			statsMu.Unlock()
			o.Fail = nil
		}
		if o.Fail != nil {
			path := saveFailure(p, c, o.Fail)
			rt.Fatalf("%s/%s violated: %s [%s]: %s (replay %s)", p.ID, p.Name, o.Fail.Invariant, o.Fail.Signature, o.Fail.Detail, path)
		}
		st.record(c, o)
	})
	if p.WAL {
		_ = os.Remove(wal)
	}
}

func oneLine(s string) string {
	s = strings.ReplaceAll(s, "\n", " | ")
	if len(s) > 600 {
		s = s[:600] + "..."
	}
	return s
}

// RunEnum drives an exhaustive enumeration (no rapid): cases come from a
// channel-free iterator, sharded by index.
func RunEnum[C any](t *testing.T, p Prop[C], each func(yield func(C) bool)) {
	t.Helper()
	if os.Getenv("VERIF_REPLAY") != "" {
		RunProp(t, p)
		return
	}
	if only := os.Getenv("VERIF_ONLY"); only != "" && !strings.Contains(","+only+",", ","+p.Name+",") {
		t.Skip("not selected")
	}
	st := getStats(p.ID, p.Name, p.Rule)
	st.Exhaustive = true
	shard, shards := shardInfo()
	i := 0
	each(func(c C) bool {
		i++
		if (i-1)%shards != shard {
			return true
		}
		o := p.Run(c)
		if o.Fail != nil && isKnown(p.ID, o.Fail.Signature) {
			st.Excluded++
			o.Fail = nil
		}
		if o.Fail != nil {
			path := saveFailure(p, c, o.Fail)
			t.Errorf("%s/%s violated: %s [%s]: %s (replay %s)", p.ID, p.Name, o.Fail.Invariant, o.Fail.Signature, o.Fail.Detail, path)
			return false
		}
		st.record(c, o)
		return true
	})
	st.Requested = st.Cases
}
