package props

// C02 — a vote is single-use; C16 — the relayer group stays well-formed.

import (
	"bytes"
	"fmt"
	"testing"
)

func runRelayer(c RelCase, id string) Outcome {
	o := Outcome{Classes: []string{fmt.Sprintf("n=%d/timeout=%d", c.N, c.TimeoutSec)}}
	w, err := newRelWorld(c)
	if err != nil {
		o.Fail = failf("fixture", "fixture-failed", "%v", err)
		return o
	}
	defer w.f.close()
	for bi, rb := range c.Blocks {
		seqBefore, epochBefore := w.m.seq, w.m.epoch
		results, tw, fl := w.step(rb)
		if fl != nil {
			if fl.Signature == "block-failed" && id != "C16" {
				o.Classes = append(o.Classes, "aborted:block-failed")
				return o
			}
			fl.Detail = fmt.Sprintf("block %d: %s", bi, fl.Detail)
			o.Fail = fl
			return o
		}
		o.Evals++
		g, err := w.export()
		if err != nil {
			o.Fail = failf("observation", "export-failed", "%v", err)
			return o
		}
		anyRejected := false
		for ti, r := range results {
			o.Classes = append(o.Classes, r.kind)
			if r.kind == "vote" && w.elections > 0 {
				w.nt["vote-after-election"] = true
			}
			ok := r.code == 0
			if !ok {
				anyRejected = true
			}
			if r.expect == vUnspecified {
				continue
			}
			want := r.expect == vAccept
			if ok == want {
				continue
			}
			// attribute the disagreement to the property it belongs to
			votedKind := r.voted
			if (id == "C02" && votedKind) || (id == "C16" && !votedKind) || (id == "C01" && votedKind && r.kind == "vote") || (id == "C01" && r.kind == "newvoter" && !want) || (r.kind == "accept" && id != "C01") {
				sig := "valid-message-rejected/" + r.kind
				if !want {
					sig = "accepted/" + r.reason
				}
				o.Fail = failf("acceptance", sig, "block %d tx %d (%s): code=%d log=%q, reference expects accept=%v (%s)", bi, ti, r.kind, r.code, r.log, want, r.reason)
				return o
			}
			// the other property owns this disagreement; the models are out of sync from here on
			o.Classes = append(o.Classes, "aborted:other-property")
			return o
		}
		if id == "C02" {
			// sequence grows by exactly the number of accepted voted proposals, by nothing else
			if g.Sequence != w.m.seq {
				o.Fail = failf("sequence", "sequence-model-mismatch", "block %d: sequence %d (was %d), reference %d", bi, g.Sequence, seqBefore, w.m.seq)
				return o
			}
			if !bytes.Equal(g.Randao, w.m.randao) {
				o.Fail = failf("randao", "randao-model-mismatch", "block %d: randomness accumulator %x, reference %x", bi, g.Randao, w.m.randao)
				return o
			}
			if anyRejected && tw.DumpWith.Hash() != tw.DumpWithout.Hash() {
				o.Fail = failf("failed-changes-nothing", "failed-transaction-changed-state", "block %d: a rejected or failed transaction changed module state: %v", bi, tw.DumpWith.Diff(tw.DumpWithout))
				return o
			}
			if g.Relayer.ProposerAccepted != w.m.accepted {
				o.Fail = failf("accepted-flag", "accepted-flag-mismatch", "block %d: proposer-accepted flag %v, reference %v", bi, g.Relayer.ProposerAccepted, w.m.accepted)
				return o
			}
		}
		if id == "C16" {
			if g.Relayer.Epoch != w.m.epoch {
				sig := "election-missed"
				if g.Relayer.Epoch > w.m.epoch {
					sig = "untimely-election"
				}
				o.Fail = failf("election-timing", sig, "block %d: epoch %d (was %d), reference %d; time since last election %s, period %s, timeout %s, accepted %v",
					bi, g.Relayer.Epoch, epochBefore, w.m.epoch, tw.Block.Time.Sub(w.m.lastElected), w.m.period, w.m.timeout, w.m.accepted)
				return o
			}
			if !g.Relayer.LastElected.Equal(w.m.lastElected) {
				o.Fail = failf("election-timing", "last-elected-mismatch", "block %d: last elected %s, reference %s", bi, g.Relayer.LastElected, w.m.lastElected)
				return o
			}
			if fl := w.reconcile(g); fl != nil {
				fl.Detail = fmt.Sprintf("block %d: %s", bi, fl.Detail)
				o.Fail = fl
				return o
			}
			if anyRejected && tw.DumpWith.Hash() != tw.DumpWithout.Hash() {
				o.Fail = failf("forged-changes-nothing", "rejected-registration-changed-state", "block %d: a rejected transaction changed module state: %v", bi, tw.DumpWith.Diff(tw.DumpWithout))
				return o
			}
		} else {
			// keep the group model in step without asserting on it
			_ = w.reconcile(g)
			if g.Relayer.Epoch != w.m.epoch {
				o.Classes = append(o.Classes, "aborted:other-property")
				return o
			}
		}
	}
	for k := range w.nt {
		o.Classes = append(o.Classes, k)
	}
	if id == "C01" {
		o.NonTrivial = w.nt["vote-after-election"]
	} else if id == "C02" {
		o.NonTrivial = len(w.history) > 0 && (w.nt["reuse"] || w.nt["postfail"])
	} else {
		o.NonTrivial = w.nt["election-join+leave"] || w.nt["removal-refused"] || (w.elections > 0 && w.nt["registration"])
	}
	if w.elections > 0 {
		o.Classes = append(o.Classes, "elections")
	}
	return o
}

func TestC02_SingleUse(t *testing.T) {
	RunProp(t, Prop[RelCase]{
		ID: "C02", Name: "single-use", Quick: 640, Thor: 10_000,
		Gen:  genRelCase("C02"),
		Run:  func(c RelCase) Outcome { return runRelayer(c, "C02") },
		Rule: "histories of 6-40 blocks over: voted messages of the five kinds (honest and the C01 fault classes), replay of any earlier accepted vote in a freshly signed transaction (verbatim or with its sequence and epoch fields rewritten to the current values), the same Votes under another message kind/payload, genuine votes over bodies that fail after the signature check (existing key, unknown withdrawal), failing non-voted messages, registrations, acceptances, two voted messages for one sequence in a block, add/remove requests and block times that trigger elections; reference: sequence += accepted voted txs, randao = SHA256(randao || signature) folded in order, accepted-flag; every rejected/failed transaction must leave the four module stores identical to the twin execution without it; non-trivial = history with an accepted vote followed by a reuse or a post-signature failure; evaluations count blocks",
	})
}

func TestC16_Group(t *testing.T) {
	RunProp(t, Prop[RelCase]{
		ID: "C16", Name: "group", Quick: 640, Thor: 10_000,
		Gen:  genRelCase("C16"),
		Run:  func(c RelCase) Outcome { return runRelayer(c, "C16") },
		Rule: "histories over group sizes 1-8: add/remove requests (members, the proposer, duplicates, strangers, re-joining addresses, removal storms), registrations with genuine proofs or one forged element (other tx key, other BLS key, other chain id/epoch/proposer/registration height, proofs by other keys), acceptances (right/wrong epoch, late, twice), voted messages signed by the live group, block times just below/at/above the electing period and the accept timeout; after every block: one proposer who has a record (activated or off-boarding) and is not a voter, distinct members with records, member set = reference set ((members + on-boarded) - off-boarded applied exactly at elections, removals that would empty the group ignored), epoch and last-elected follow the timing rule exactly, forged/replayed registrations rejected with no state change (twin), FinalizeBlock never fails; non-trivial = an election applying both a join and a leave, a refused removal, or a registration followed by an election",
	})
}
