package props

// Shared machinery for voted relayer messages: a fixture chain that has
// pending/processing withdrawals, constructors of each voted message kind with
// a valid body, a data-only vote specification and the reference quorum oracle.

import (
	"bytes"
	"fmt"
	"time"

	"github.com/btcsuite/btcd/wire"
	sdk "github.com/cosmos/cosmos-sdk/types"
	"github.com/ethereum/go-ethereum/core/types/goattypes"
	bitcointypes "github.com/goatnetwork/goat/x/bitcoin/types"
	relayertypes "github.com/goatnetwork/goat/x/relayer/types"
	"verif/harness/world"
)

const (
	kindHashes = iota
	kindPubkey
	kindProcess
	kindReplace
	kindConsolidation
	numVoteKinds
)

var kindNames = []string{"NewBlockHashes", "NewPubkey", "ProcessWithdrawal", "ReplaceWithdrawal", "NewConsolidation"}
var kindMethods = []string{world.MethodNewBlocks, world.MethodNewPubkey, world.MethodProcess, world.MethodReplace, world.MethodConsolidation}

// threshold is ceil(2(n+1)/3) in integers: least t with 3t >= 2(n+1).
func threshold(n int) int { return (2*(n+1) + 2) / 3 }

// userScript is the withdrawal script of model user i (P2WPKH).
// users 2k and 2k+1 share one address (so that two withdrawals of one batch can pay the same script)
func userScript(i uint64) []byte {
	return world.P2WPKHScript(world.Hash160([]byte(fmt.Sprintf("user-%d", i&^1))))
}

func userAddress(i uint64) string {
	a, err := bech32SegwitAddr("bcrt", 0, world.Hash160([]byte(fmt.Sprintf("user-%d", i&^1))))
	if err != nil {
		panic(err)
	}
	return a
}

// voteFixture is a live chain prepared so that every voted message kind has a valid body.
type voteFixture struct {
	sim       *world.Sim
	n         int // voters
	btcKey    world.BtcKey
	pending   []uint64 // pending withdrawal ids, consumed front first at app level
	pid       uint64
	pidIDs    []uint64
	prevFee   uint64
	salt      uint64
	procCount uint64
	amount    uint64
	maxPrice  uint64
}

func newVoteFixture(n int, epoch, seq uint64, schnorrKey bool) (*voteFixture, error) {
	// elections would reshuffle the group; C16 owns them
	return newVoteFixtureWith(n, epoch, seq, schnorrKey, 1000*time.Hour, time.Minute)
}

func newVoteFixtureWith(n int, epoch, seq uint64, schnorrKey bool, period, timeout time.Duration) (*voteFixture, error) {
	spec := world.DefaultSpec(1, n)
	spec.Epoch, spec.Sequence = epoch, seq
	spec.BtcKeys = []world.BtcKey{world.NewBtcKey(0, schnorrKey)}
	spec.RelayerParams.ElectingPeriod = period
	spec.RelayerParams.AcceptProposerTimeout = timeout
	s, err := world.NewSim(spec)
	if err != nil {
		return nil, err
	}
	f := &voteFixture{sim: s, n: n, btcKey: spec.BtcKeys[0], amount: 100_000, maxPrice: 50}
	// block 1: the execution layer reports withdrawals 10..29
	br := goattypes.BridgeRequests{}
	for id := uint64(10); id < 30; id++ {
		br.Withdraws = append(br.Withdraws, &goattypes.WithdrawalRequest{Id: id, Amount: f.amount, TxPrice: f.maxPrice, Address: userAddress(id)})
		f.pending = append(f.pending, id)
	}
	if _, err := s.Step(world.StepOpts{DT: 5 * time.Second, Proposer: -1, Eth: world.EthBlockOpts{Plan: world.BuildPlan{Requests: br.Encode()}}}); err != nil {
		s.Close()
		return nil, err
	}
	// block 2: process withdrawal 10 with an honest full vote, so a processing entry exists
	m := f.bodyProcess()
	raw, err := f.honestTx(m)
	if err != nil {
		s.Close()
		return nil, err
	}
	r, err := s.Step(world.StepOpts{DT: 5 * time.Second, Proposer: -1, Txs: [][]byte{raw}})
	if err != nil {
		s.Close()
		return nil, err
	}
	if r.Resp.TxResults[1].Code != 0 {
		s.Close()
		return nil, fmt.Errorf("fixture: honest ProcessWithdrawal failed: %s", r.Resp.TxResults[1].Log)
	}
	f.consume(m)
	return f, nil
}

func (f *voteFixture) close() { f.sim.Close() }

// voteBody is a voted message without its vote.
type voteBody struct {
	kind   int
	start  uint64
	hashes [][]byte
	pubkey *relayertypes.PublicKey
	ids    []uint64
	tx     []byte
	fee    uint64
	pid    uint64
}

func (b voteBody) doc() []byte {
	switch b.kind {
	case kindHashes:
		return world.DocNewBlocks(b.start, b.hashes)
	case kindPubkey:
		return world.DocNewPubkey(b.pubkey)
	case kindProcess:
		return world.DocProcess(b.ids, b.tx, b.fee)
	case kindReplace:
		return world.DocReplace(b.pid, b.fee, b.tx)
	}
	return world.DocConsolidation(b.tx)
}

func (b voteBody) msg(proposer string, v *relayertypes.Votes) sdk.Msg {
	switch b.kind {
	case kindHashes:
		return &bitcointypes.MsgNewBlockHashes{Proposer: proposer, Vote: v, StartBlockNumber: b.start, BlockHash: b.hashes}
	case kindPubkey:
		return &bitcointypes.MsgNewPubkey{Proposer: proposer, Vote: v, Pubkey: b.pubkey}
	case kindProcess:
		return &bitcointypes.MsgProcessWithdrawal{Proposer: proposer, Vote: v, Id: b.ids, NoWitnessTx: b.tx, TxFee: b.fee}
	case kindReplace:
		return &bitcointypes.MsgReplaceWithdrawal{Proposer: proposer, Vote: v, Pid: b.pid, NewNoWitnessTx: b.tx, NewTxFee: b.fee}
	}
	return &bitcointypes.MsgNewConsolidation{Proposer: proposer, Vote: v, NoWitnessTx: b.tx}
}

func (f *voteFixture) nextSalt() uint64 { f.salt++; return f.salt }

func (f *voteFixture) bodyHashes(k int) voteBody {
	tip, err := f.sim.Node.BtcTip()
	if err != nil {
		panic(err)
	}
	b := voteBody{kind: kindHashes, start: tip + 1}
	for i := 0; i < k; i++ {
		b.hashes = append(b.hashes, world.DSha([]byte(fmt.Sprintf("hdr-%d-%d", tip+1+uint64(i), f.nextSalt()))))
	}
	return b
}

func (f *voteFixture) bodyPubkey() voteBody {
	s := f.nextSalt()
	return voteBody{kind: kindPubkey, pubkey: world.NewBtcKey(int(1000+s), s%2 == 1).Public()}
}

func (f *voteFixture) withdrawTx(ids []uint64, change bool) []byte {
	var outs []*wire.TxOut
	for _, id := range ids {
		outs = append(outs, wire.NewTxOut(int64(f.amount-1000), userScript(id)))
	}
	if change {
		outs = append(outs, wire.NewTxOut(5000, world.SystemScript(f.btcKey)))
	}
	return world.SerializeNoWitness(world.SpendTx(f.nextSalt(), outs...))
}

func (f *voteFixture) bodyProcess() voteBody {
	if len(f.pending) == 0 {
		panic("fixture ran out of pending withdrawals")
	}
	ids := []uint64{f.pending[0]}
	if len(f.pending) >= 2 && f.pending[0]%2 == 0 && f.pending[1] == f.pending[0]+1 && f.salt%3 != 0 {
		ids = append(ids, f.pending[1]) // a batch of two withdrawals to the same address
	}
	tx := f.withdrawTx(ids, f.salt%2 == 0)
	return voteBody{kind: kindProcess, ids: ids, tx: tx, fee: uint64(len(tx))} // 1 sat/byte
}

func (f *voteFixture) bodyReplace() voteBody {
	tx := f.withdrawTx(f.pidIDs, f.salt%2 == 0)
	return voteBody{kind: kindReplace, pid: f.pid, tx: tx, fee: f.prevFee + 1}
}

func (f *voteFixture) bodyConsolidation() voteBody {
	tx := world.SerializeNoWitness(world.SpendTx(f.nextSalt(), wire.NewTxOut(1_000_000, world.SystemScript(f.btcKey))))
	return voteBody{kind: kindConsolidation, tx: tx}
}

func (f *voteFixture) body(kind int, arg int) voteBody {
	switch kind {
	case kindHashes:
		// 0-3 hashes mostly; the cap (16) and one below it too
		return f.bodyHashes([]int{0, 1, 2, 3, 1, 15, 16, 16}[abs(arg)%8])
	case kindPubkey:
		return f.bodyPubkey()
	case kindProcess:
		return f.bodyProcess()
	case kindReplace:
		return f.bodyReplace()
	}
	return f.bodyConsolidation()
}

// consume updates the fixture after body b was accepted by the chain.
func (f *voteFixture) consume(b voteBody) {
	switch b.kind {
	case kindProcess:
		f.pid = f.nextPid()
		f.pidIDs = b.ids
		f.prevFee = b.fee
		f.pending = f.pending[len(b.ids):]
	case kindReplace:
		f.prevFee = b.fee
	case kindPubkey:
		// the new key becomes current
		f.btcKey = f.keyOf(b.pubkey)
	}
}

func (f *voteFixture) nextPid() uint64 {
	p := f.procCount
	f.procCount++
	return p
}

func (f *voteFixture) keyOf(pk *relayertypes.PublicKey) world.BtcKey {
	for i := 1000; i < 1000+int(f.salt)+2; i++ {
		for _, s := range []bool{false, true} {
			k := world.NewBtcKey(i, s)
			if k.Public().Equal(pk) {
				return k
			}
		}
	}
	panic("unknown key")
}

// honestTx signs body with a full honest vote and wraps it in a proposer tx.
func (f *voteFixture) honestTx(b voteBody) ([]byte, error) {
	rv, err := f.sim.Node.RelayerView()
	if err != nil {
		return nil, err
	}
	ctx := world.VoteCtx{ChainID: f.sim.Spec.ChainID, Proposer: rv.Proposer, Sequence: rv.Sequence, Epoch: rv.Epoch}
	doc := world.SignDoc(kindMethods[b.kind], ctx, b.doc())
	signers := []world.BLSKey{f.memberBLS(rv.Proposer)}
	var marks []int
	for i, v := range rv.Voters {
		signers = append(signers, f.memberBLS(v))
		marks = append(marks, i)
	}
	votes, err := world.MakeVotes(ctx, doc, signers, canonicalBitmapLen(len(rv.Voters)), marks)
	if err != nil {
		return nil, err
	}
	prop := f.memberAcc(rv.Proposer)
	return f.sim.Node.Tx(prop, 0, world.TxOpts{}, b.msg(rv.Proposer, votes))
}

func canonicalBitmapLen(n int) int {
	if n == 0 {
		return 0
	}
	return ((n + 63) / 64) * 8
}

func (f *voteFixture) memberIdx(bech string) int {
	for i := 0; i <= f.n+16; i++ {
		if world.NewAccount(world.DomRelayer, i).Bech32() == bech {
			return i
		}
	}
	panic("unknown relayer member " + bech)
}

func (f *voteFixture) memberBLS(bech string) world.BLSKey {
	return world.NewBLSKey(world.DomRelayer, f.memberIdx(bech))
}
func (f *voteFixture) memberAcc(bech string) world.Account {
	return world.NewAccount(world.DomRelayer, f.memberIdx(bech))
}

// ---- data-only vote specification ----

// VoteSpec describes how a vote is put together, independent of chain state.
type VoteSpec struct {
	Kind    int `json:"kind"`
	BodyArg int `json:"body_arg"`
	// Marks are bit positions set in the bitmap; positions >= number of voters are phantom.
	Marks       []int `json:"marks"`
	BitmapBytes int   `json:"bitmap_bytes"` // -1 = canonical
	// Signers: 0 = proposer, i in 1..N = voter i-1, > N = stranger (non-member key); duplicates allowed
	Signers []int `json:"signers"`
	// context the signature is made over: deltas / substitutions against the true one
	DocChain    bool `json:"doc_chain,omitempty"`
	DocSeqDelta int  `json:"doc_seq_delta,omitempty"`
	DocEpDelta  int  `json:"doc_epoch_delta,omitempty"`
	DocMethod   int  `json:"doc_method,omitempty"`   // 0 = right, k = method of kind (Kind+k)%5
	DocProposer int  `json:"doc_proposer,omitempty"` // 0 = right, k = member k's address
	// fields of the Votes message and of the message itself
	MsgSeqDelta int    `json:"msg_seq_delta,omitempty"`
	MsgEpDelta  int    `json:"msg_epoch_delta,omitempty"`
	MsgProposer int    `json:"msg_proposer,omitempty"` // 0 = current proposer, k = member k
	Tamper      int    `json:"tamper,omitempty"`       // body field changed after signing (0 = none)
	SigKind     int    `json:"sig_kind,omitempty"`     // 0 aggregate, 1 47 bytes, 2 49 bytes, 3 infinity, 4 another valid point
	Class       string `json:"class"`
	// Reuse > 0: replace the Votes by those of the (Reuse-1 mod k)-th earlier valid vote of the case, with the
	// sequence and epoch fields rewritten to the current values
	Reuse int `json:"reuse,omitempty"`
	// Reimport (app slice only): the chain is restarted from its exported state before this vote is delivered
	Reimport bool `json:"reimport,omitempty"`
}

// builtVote is a resolved vote plus the oracle's verdict.
type builtVote struct {
	body       voteBody
	msg        sdk.Msg
	signer     world.Account // tx signer
	mustAccept bool
	reason     string // first broken clause, "" if none
	// unspecified: the only deviation is a bitmap longer than 32 bytes around an
	// otherwise genuine quorum; the statement does not speak about it (some
	// message kinds bound the bitmap size, others do not)
	unspecified bool
	genuine     bool   // contains >= 1 genuine member share over the right seq/epoch
	doc         []byte // the document an honest signature of this vote covers (true context, untampered body)
}

func tamperBody(b voteBody, which int) voteBody {
	c := b
	flip := func(x []byte, i int) []byte {
		y := append([]byte{}, x...)
		if len(y) > 0 {
			y[i%len(y)] ^= 0x01
		}
		return y
	}
	switch b.kind {
	case kindHashes:
		switch {
		case which%3 == 0 && len(b.hashes) > 0:
			c.hashes = append([][]byte{}, b.hashes...)
			switch which {
			case 6: // the last hash, one of its last eight bytes
				c.hashes[len(b.hashes)-1] = flip(b.hashes[len(b.hashes)-1], 24+which%8)
			case 9: // the very last byte of the list
				c.hashes[len(b.hashes)-1] = flip(b.hashes[len(b.hashes)-1], 31)
			default:
				c.hashes[which%len(b.hashes)] = flip(b.hashes[which%len(b.hashes)], which)
			}
		case which == 7 && len(b.hashes) >= 2:
			// the same bytes cut differently: the first two hashes as one 64-byte entry followed by an empty one
			c.hashes = append([][]byte{append(append([]byte{}, b.hashes[0]...), b.hashes[1]...), {}}, b.hashes[2:]...)
		case which%3 == 1:
			c.hashes = append(append([][]byte{}, b.hashes...), world.DSha([]byte{byte(which)}))
		default:
			if len(b.hashes) > 0 {
				c.hashes = b.hashes[:len(b.hashes)-1]
			} else {
				c.hashes = [][]byte{world.DSha([]byte{byte(which)})}
			}
		}
	case kindPubkey:
		c.pubkey = world.NewBtcKey(5000+which, which%2 == 0).Public()
	case kindProcess:
		switch {
		case which%3 == 2 && len(b.ids) >= 2:
			// the voted ids in another order (same transaction, same fee)
			c.ids = append([]uint64{b.ids[1], b.ids[0]}, b.ids[2:]...)
		case which%2 == 0:
			c.fee = b.fee - 1
		default:
			c.fee = b.fee + 1
		}
	case kindReplace:
		c.fee = b.fee + 1 + uint64(which%3)
	case kindConsolidation:
		c.tx = flipLockTime(b.tx)
	}
	return c
}

// flipLockTime changes the last 4 bytes (lock time) of a serialised tx: still a
// well-formed transaction with the same outputs, but another txid.
func flipLockTime(tx []byte) []byte {
	y := append([]byte{}, tx...)
	y[len(y)-1] ^= 0x01
	return y
}

// buildVote resolves a VoteSpec against the fixture's current state and
// evaluates the reference quorum predicate.
func (f *voteFixture) buildVote(s VoteSpec) (*builtVote, error) {
	rv, err := f.sim.Node.RelayerView()
	if err != nil {
		return nil, err
	}
	n := len(rv.Voters)
	if s.Class == "honest-all" {
		// a full honest vote of whatever the group is right now
		s.Marks, s.Signers = seqInts(n), honestSigners(seqInts(n))
	}
	body := f.body(s.Kind%numVoteKinds, s.BodyArg)
	out := &builtVote{body: body, mustAccept: true}
	reject := func(r string) {
		if out.mustAccept {
			out.mustAccept = false
			out.reason = r
		}
	}

	// --- the sign doc ---
	ctx := world.VoteCtx{ChainID: f.sim.Spec.ChainID, Proposer: rv.Proposer, Sequence: rv.Sequence, Epoch: rv.Epoch}
	docCtx := ctx
	if s.DocChain {
		docCtx.ChainID = ctx.ChainID + "-other"
		reject("doc:chain")
	}
	if s.DocSeqDelta != 0 {
		docCtx.Sequence = uint64(int64(ctx.Sequence) + int64(s.DocSeqDelta))
		reject("doc:sequence")
	}
	if s.DocEpDelta != 0 {
		docCtx.Epoch = uint64(int64(ctx.Epoch) + int64(s.DocEpDelta))
		reject("doc:epoch")
	}
	method := kindMethods[body.kind]
	if s.DocMethod%numVoteKinds != 0 {
		method = kindMethods[(body.kind+s.DocMethod)%numVoteKinds]
		reject("doc:method")
	}
	members := append([]string{rv.Proposer}, rv.Voters...)
	if s.DocProposer != 0 && n > 0 {
		k := 1 + (abs(s.DocProposer)-1)%n
		docCtx.Proposer = members[k]
		reject("doc:proposer")
	}
	doc := world.SignDoc(method, docCtx, body.doc())
	out.doc = doc

	// --- signers ---
	var keys []world.BLSKey
	cnt := map[int]int{}
	for _, sg := range s.Signers {
		switch {
		case sg <= 0:
			keys = append(keys, f.memberBLS(rv.Proposer))
			cnt[0]++
		case sg <= n:
			keys = append(keys, f.memberBLS(rv.Voters[sg-1]))
			cnt[sg]++
		default:
			keys = append(keys, world.NewBLSKey(world.DomStranger, sg))
			cnt[-sg]++
		}
	}
	if len(keys) == 0 {
		keys = append(keys, world.NewBLSKey(world.DomStranger, 1))
		cnt[-1]++
	}
	if docCtx.Sequence == ctx.Sequence && docCtx.Epoch == ctx.Epoch {
		for k := range cnt {
			if k >= 0 {
				out.genuine = true
			}
		}
	}

	// --- bitmap ---
	bmBytes := s.BitmapBytes
	if bmBytes < 0 {
		bmBytes = canonicalBitmapLen(n)
	}
	marked := map[int]bool{}
	for _, m := range s.Marks {
		if m >= 0 && m/8 < bmBytes {
			marked[m] = true
		}
	}
	var marks []int
	for m := range marked {
		marks = append(marks, m)
	}
	if bmBytes%8 != 0 {
		reject("bitmap:length-not-multiple-of-8")
	}
	oversize := bmBytes > 32 && bmBytes%8 == 0
	phantom := false
	for m := range marked {
		if m >= n {
			phantom = true
		}
	}
	if phantom {
		reject("bitmap:mark-beyond-voter-list")
	}
	if len(marked)+1 < threshold(n) {
		reject("quorum:below-threshold")
	}
	// "proposer plus a set of distinct current voters": nobody may be counted twice, whatever the group looks like
	{
		seen := map[string]bool{rv.Proposer: true}
		for m := range marked {
			if m < n {
				if seen[rv.Voters[m]] {
					reject("member-counted-twice")
				}
				seen[rv.Voters[m]] = true
			}
		}
	}
	// signer multiset must be exactly proposer + marked voters, once each
	exact := cnt[0] == 1
	for m := range marked {
		if m < n && cnt[m+1] != 1 {
			exact = false
		}
	}
	for k, c := range cnt {
		if k < 0 && c > 0 {
			exact = false
		}
		if k > 0 && (!marked[k-1] || c != 1) {
			exact = false
		}
	}
	if !exact {
		reject("signers!=proposer+marked")
	}

	votes, err := world.MakeVotes(ctx, doc, keys, bmBytes, marks)
	if err != nil {
		return nil, err
	}
	votes.Sequence = uint64(int64(ctx.Sequence) + int64(s.MsgSeqDelta))
	votes.Epoch = uint64(int64(ctx.Epoch) + int64(s.MsgEpDelta))
	if s.MsgSeqDelta != 0 {
		reject("msg:sequence")
	}
	if s.MsgEpDelta != 0 {
		reject("msg:epoch")
	}
	switch s.SigKind {
	case 1:
		votes.Signature = votes.Signature[:47]
		reject("sig:length")
	case 2:
		votes.Signature = append(votes.Signature, 0)
		reject("sig:length")
	case 3:
		inf := make([]byte, 48)
		inf[0] = 0xc0
		votes.Signature = inf
		reject("sig:infinity")
	case 4:
		votes.Signature = world.NewBLSKey(world.DomStranger, 99).Sign([]byte("unrelated"))
		reject("sig:unrelated")
	}

	msgProposer := rv.Proposer
	out.signer = f.memberAcc(rv.Proposer)
	if s.MsgProposer != 0 && n > 0 {
		k := 1 + (abs(s.MsgProposer)-1)%n
		msgProposer = members[k]
		out.signer = f.memberAcc(msgProposer)
		reject("msg:proposer")
	}
	final := body
	if s.Tamper != 0 {
		final = tamperBody(body, abs(s.Tamper))
		reject("payload-changed-after-signing")
	}
	if oversize && out.mustAccept {
		out.unspecified = true
	}
	out.body = final
	out.msg = final.msg(msgProposer, votes)
	return out, nil
}

// priorVote remembers a vote that was valid and accepted, with the document it signs.
type priorVote struct {
	votes *relayertypes.Votes
	doc   []byte
}

func (f *voteFixture) docOf(b voteBody) []byte {
	rv, err := f.sim.Node.RelayerView()
	if err != nil {
		return nil
	}
	ctx := world.VoteCtx{ChainID: f.sim.Spec.ChainID, Proposer: rv.Proposer, Sequence: rv.Sequence, Epoch: rv.Epoch}
	return world.SignDoc(kindMethods[b.kind], ctx, b.doc())
}

// priorOf: the document was fixed when the vote was built (it depends on the sequence at that time).
func (f *voteFixture) priorOf(v *builtVote) priorVote {
	return priorVote{votes: voteOf(v.msg), doc: v.doc}
}

// reuseVote turns v into "the Votes of an earlier valid vote, relabelled for now, under v's body"; the reference
// rejects it unless v's body under the current context is exactly what the earlier signature covers.
func (f *voteFixture) reuseVote(v *builtVote, s VoteSpec, prior []priorVote) bool {
	if s.Reuse <= 0 || len(prior) == 0 {
		return false
	}
	p := prior[(s.Reuse-1)%len(prior)]
	rv, err := f.sim.Node.RelayerView()
	if err != nil {
		return false
	}
	doc := f.docOf(v.body)
	if doc == nil || bytes.Equal(doc, p.doc) {
		return false
	}
	votes := &relayertypes.Votes{Sequence: rv.Sequence, Epoch: rv.Epoch, Voters: append([]byte{}, p.votes.Voters...), Signature: append([]byte{}, p.votes.Signature...)}
	v.msg = v.body.msg(rv.Proposer, votes)
	v.signer = f.memberAcc(rv.Proposer)
	v.mustAccept, v.unspecified, v.reason, v.genuine = false, false, "signature-of-another-proposal", true
	return true
}
