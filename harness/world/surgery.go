package world

import (
	"fmt"

	txtypes "github.com/cosmos/cosmos-sdk/types/tx"
	"github.com/cosmos/gogoproto/proto"
	"google.golang.org/protobuf/encoding/protowire"
)

// DropProtoField removes every occurrence of field number drop from the protobuf message reached by following
// the length-delimited fields of path from the top of b (lengths of the enclosing fields are rewritten). It is
// how "this field is absent on the wire" is expressed for fields the Go types always encode.
func DropProtoField(b []byte, path []int, drop int) ([]byte, bool) {
	var out []byte
	changed := false
	for len(b) > 0 {
		num, typ, n := protowire.ConsumeTag(b)
		if n < 0 {
			return nil, false
		}
		m := protowire.ConsumeFieldValue(num, typ, b[n:])
		if m < 0 {
			return nil, false
		}
		field := b[:n+m]
		val := b[n : n+m]
		b = b[n+m:]
		if len(path) == 0 {
			if int(num) == drop {
				changed = true
				continue
			}
			out = append(out, field...)
			continue
		}
		if int(num) == path[0] && typ == protowire.BytesType {
			inner, k := protowire.ConsumeBytes(val)
			if k < 0 {
				return nil, false
			}
			if sub, ok := DropProtoField(inner, path[1:], drop); ok {
				out = protowire.AppendTag(out, num, typ)
				out = protowire.AppendBytes(out, sub)
				changed = true
				continue
			}
		}
		out = append(out, field...)
	}
	return out, changed
}

// ResignWithBody replaces the body of a signed single-signer transaction by mutate(body) and signs again
// (SIGN_MODE_DIRECT), so that the changed bytes arrive behind a valid signature.
func ResignWithBody(raw []byte, chainID string, accNum uint64, signer Account, mutate func(body []byte) ([]byte, bool)) ([]byte, error) {
	var tr txtypes.TxRaw
	if err := proto.Unmarshal(raw, &tr); err != nil {
		return nil, err
	}
	body, ok := mutate(tr.BodyBytes)
	if !ok {
		return nil, fmt.Errorf("body not changed")
	}
	tr.BodyBytes = body
	doc := txtypes.SignDoc{BodyBytes: tr.BodyBytes, AuthInfoBytes: tr.AuthInfoBytes, ChainId: chainID, AccountNumber: accNum}
	bz, err := proto.Marshal(&doc)
	if err != nil {
		return nil, err
	}
	sig, err := signer.Priv.Sign(bz)
	if err != nil {
		return nil, err
	}
	tr.Signatures = [][]byte{sig}
	return proto.Marshal(&tr)
}
