package world

import (
	"encoding/binary"
	"errors"
	"fmt"
	"time"

	abci "github.com/cometbft/cometbft/abci/types"
	cryptoenc "github.com/cometbft/cometbft/crypto/encoding"
	cmtproto "github.com/cometbft/cometbft/proto/tendermint/types"
	cmttypes "github.com/cometbft/cometbft/types"
)

// Chain models the CometBFT side of one chain: heights, times, block hashes and
// the validator-set pipeline (updates returned at H take effect at H+2), using
// CometBFT's own ValidatorSet code as the consumer of validator updates.
type Chain struct {
	ChainID string
	Height  int64 // last decided height (InitialHeight-1 before the first block)
	Initial int64
	Time    time.Time // time of the last decided block
	Hash    []byte    // hash of the last decided block

	LastVals *cmttypes.ValidatorSet // signed the last decided block
	Vals     *cmttypes.ValidatorSet // validates block Height+1
	NextVals *cmttypes.ValidatorSet // validates block Height+2

	PubKeyTypes []string
}

// NewChain seeds the model from the InitChain response.
func NewChain(s GenesisSpec, initVals []abci.ValidatorUpdate) (*Chain, error) {
	vals, err := cmttypes.PB2TM.ValidatorUpdates(initVals)
	if err != nil {
		return nil, err
	}
	if len(vals) == 0 {
		return nil, errors.New("empty initial validator set")
	}
	for _, v := range vals {
		if v.VotingPower <= 0 {
			return nil, fmt.Errorf("initial validator %X with power %d", v.Address, v.VotingPower)
		}
	}
	set, err := newValidatorSet(vals)
	if err != nil {
		return nil, err
	}
	next := set.CopyIncrementProposerPriority(1)
	return &Chain{
		ChainID: s.ChainID, Height: s.InitialHeight - 1, Initial: s.InitialHeight, Time: s.Time,
		Hash: make([]byte, 32), LastVals: cmttypes.NewValidatorSet(nil), Vals: set, NextVals: next,
		PubKeyTypes: []string{"secp256k1"},
	}, nil
}

func newValidatorSet(vals []*cmttypes.Validator) (vs *cmttypes.ValidatorSet, err error) {
	defer func() {
		if r := recover(); r != nil {
			err = fmt.Errorf("NewValidatorSet: %v", r)
		}
	}()
	return cmttypes.NewValidatorSet(vals), nil
}

// Vote describes how one validator of the last block appears in the commit.
type Vote struct {
	Addr   []byte
	Absent bool
}

// Evidence describes a misbehaviour entry.
type Evidence struct {
	LightClient bool
	Addr        []byte
	Power       int64
	Height      int64
	Time        time.Time
	TotalPower  int64
}

// Block is everything CometBFT decides about a block besides the txs.
type Block struct {
	Height   int64
	Time     time.Time
	Hash     []byte
	Proposer []byte
	Votes    []abci.VoteInfo
	Evidence []abci.Misbehavior
}

// NextBlock prepares the consensus-side data of block Height+1.
//   - dt: time since the previous block (must be > 0)
//   - proposer: index into the current validator set (mod size); <0 = CometBFT's proposer
//   - absent: addresses (as string) of last-block validators that did not sign
func (c *Chain) NextBlock(dt time.Duration, proposer int, absent map[string]bool, ev []Evidence) Block {
	if dt <= 0 {
		dt = time.Second
	}
	b := Block{Height: c.Height + 1, Time: c.Time.Add(dt)}
	if proposer < 0 {
		b.Proposer = c.Vals.GetProposer().Address
	} else {
		b.Proposer = c.Vals.Validators[proposer%len(c.Vals.Validators)].Address
	}
	for _, v := range c.LastVals.Validators {
		flag := cmtproto.BlockIDFlagCommit
		if absent[string(v.Address)] {
			flag = cmtproto.BlockIDFlagAbsent
		}
		b.Votes = append(b.Votes, abci.VoteInfo{Validator: abci.Validator{Address: v.Address, Power: v.VotingPower}, BlockIdFlag: flag})
	}
	for _, e := range ev {
		t := abci.MisbehaviorType_DUPLICATE_VOTE
		if e.LightClient {
			t = abci.MisbehaviorType_LIGHT_CLIENT_ATTACK
		}
		b.Evidence = append(b.Evidence, abci.Misbehavior{Type: t, Validator: abci.Validator{Address: e.Addr, Power: e.Power},
			Height: e.Height, Time: e.Time, TotalVotingPower: e.TotalPower})
	}
	var hb [8]byte
	binary.LittleEndian.PutUint64(hb[:], uint64(b.Height))
	b.Hash = sha256sum([]byte(c.ChainID), hb[:], c.Hash, []byte(b.Time.UTC().Format(time.RFC3339Nano)))
	return b
}

// FinalizeReq renders the block into the ABCI request.
func (b Block) FinalizeReq(txs [][]byte, nextValsHash []byte) *abci.RequestFinalizeBlock {
	return &abci.RequestFinalizeBlock{
		Txs: txs, DecidedLastCommit: abci.CommitInfo{Votes: b.Votes}, Misbehavior: b.Evidence,
		Hash: b.Hash, Height: b.Height, Time: b.Time, ProposerAddress: b.Proposer, NextValidatorsHash: nextValsHash,
	}
}

func (b Block) ProcessReq(txs [][]byte) *abci.RequestProcessProposal {
	return &abci.RequestProcessProposal{
		Txs: txs, ProposedLastCommit: abci.CommitInfo{Votes: b.Votes}, Misbehavior: b.Evidence,
		Hash: b.Hash, Height: b.Height, Time: b.Time, ProposerAddress: b.Proposer,
	}
}

func (b Block) PrepareReq(txs [][]byte) *abci.RequestPrepareProposal {
	ext := make([]abci.ExtendedVoteInfo, len(b.Votes))
	for i, v := range b.Votes {
		ext[i] = abci.ExtendedVoteInfo{Validator: v.Validator, BlockIdFlag: v.BlockIdFlag}
	}
	return &abci.RequestPrepareProposal{
		MaxTxBytes: 6348800, Txs: txs, LocalLastCommit: abci.ExtendedCommitInfo{Votes: ext}, Misbehavior: b.Evidence,
		Height: b.Height, Time: b.Time, ProposerAddress: b.Proposer,
	}
}

// ValidateUpdates is CometBFT's validateValidatorUpdates (state/execution.go).
func (c *Chain) ValidateUpdates(updates []abci.ValidatorUpdate) error {
	for _, u := range updates {
		if u.GetPower() < 0 {
			return fmt.Errorf("voting power can't be negative %v", u)
		} else if u.GetPower() == 0 {
			continue
		}
		pk, err := cryptoenc.PubKeyFromProto(u.PubKey)
		if err != nil {
			return err
		}
		ok := false
		for _, t := range c.PubKeyTypes {
			if t == pk.Type() {
				ok = true
			}
		}
		if !ok {
			return fmt.Errorf("validator %v is using pubkey %s, which is unsupported for consensus", u, pk.Type())
		}
	}
	return nil
}

// Decide records block b as decided and feeds the application's validator
// updates through CometBFT's own validation and ValidatorSet.UpdateWithChangeSet.
// A non-nil error is what would halt a real CometBFT node.
func (c *Chain) Decide(b Block, updates []abci.ValidatorUpdate) error {
	if err := c.ValidateUpdates(updates); err != nil {
		return fmt.Errorf("validateValidatorUpdates: %w", err)
	}
	vu, err := cmttypes.PB2TM.ValidatorUpdates(updates)
	if err != nil {
		return fmt.Errorf("PB2TM.ValidatorUpdates: %w", err)
	}
	nvals := c.NextVals.Copy()
	if len(vu) > 0 {
		if err := nvals.UpdateWithChangeSet(vu); err != nil {
			return fmt.Errorf("UpdateWithChangeSet: %w", err)
		}
	}
	nvals.IncrementProposerPriority(1)
	c.LastVals = c.Vals.Copy()
	c.Vals = c.NextVals.Copy()
	c.NextVals = nvals
	c.Height, c.Time, c.Hash = b.Height, b.Time, b.Hash
	return nil
}
