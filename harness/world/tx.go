package world

import (
	"context"
	"errors"
	"fmt"

	"github.com/cosmos/cosmos-sdk/client"
	clienttx "github.com/cosmos/cosmos-sdk/client/tx"
	sdk "github.com/cosmos/cosmos-sdk/types"
	"github.com/cosmos/cosmos-sdk/types/tx/signing"
	xauthsigning "github.com/cosmos/cosmos-sdk/x/auth/signing"
	"github.com/ethereum/go-ethereum/common"
	goatcrypto "github.com/goatnetwork/goat/pkg/crypto"
	goattypes "github.com/goatnetwork/goat/x/goat/types"
	relayertypes "github.com/goatnetwork/goat/x/relayer/types"
)

// TxOpts are the knobs of a hand-built transaction.
type TxOpts struct {
	Memo          string
	TimeoutHeight uint64
	GasLimit      uint64
	// signature tampering
	SignChainID string   // "" = the real chain id
	SignSeq     *uint64  // nil = the account's sequence
	SignWith    *Account // nil = the account's own key
	ExtraSigner *Account // adds a second signer info/signature (multi-signer tx)
}

// SignTx builds and signs a transaction exactly like the node's own proposal
// builder does (SIGN_MODE_DIRECT, single signer).
func SignTx(txCfg client.TxConfig, chainID string, acc Account, accNum, seq uint64, o TxOpts, msgs ...sdk.Msg) ([]byte, error) {
	b := txCfg.NewTxBuilder()
	gas := o.GasLimit
	if gas == 0 {
		gas = 1e8
	}
	b.SetGasLimit(gas)
	b.SetTimeoutHeight(o.TimeoutHeight)
	b.SetMemo(o.Memo)
	if err := b.SetMsgs(msgs...); err != nil {
		return nil, err
	}
	mode := signing.SignMode(txCfg.SignModeHandler().DefaultMode())
	signSeq := seq
	if o.SignSeq != nil {
		signSeq = *o.SignSeq
	}
	placeholder := []signing.SignatureV2{{PubKey: acc.PubKey(), Data: &signing.SingleSignatureData{SignMode: mode}, Sequence: signSeq}}
	if o.ExtraSigner != nil {
		placeholder = append(placeholder, signing.SignatureV2{PubKey: o.ExtraSigner.PubKey(), Data: &signing.SingleSignatureData{SignMode: mode}, Sequence: 0})
	}
	if err := b.SetSignatures(placeholder...); err != nil {
		return nil, err
	}
	cid := chainID
	if o.SignChainID != "" {
		cid = o.SignChainID
	}
	signer := acc
	if o.SignWith != nil {
		signer = *o.SignWith
	}
	sig, err := clienttx.SignWithPrivKey(context.Background(), mode, xauthsigning.SignerData{
		Address: acc.Bech32(), ChainID: cid, AccountNumber: accNum, Sequence: signSeq, PubKey: acc.PubKey(),
	}, b, signer.Priv, txCfg, signSeq)
	if err != nil {
		return nil, err
	}
	sig.PubKey = acc.PubKey()
	sigs := []signing.SignatureV2{sig}
	if o.ExtraSigner != nil {
		s2, err := clienttx.SignWithPrivKey(context.Background(), mode, xauthsigning.SignerData{
			Address: o.ExtraSigner.Bech32(), ChainID: cid, AccountNumber: 0, Sequence: 0, PubKey: o.ExtraSigner.PubKey(),
		}, b, o.ExtraSigner.Priv, txCfg, 0)
		if err != nil {
			return nil, err
		}
		sigs = append(sigs, s2)
	}
	if err := b.SetSignatures(sigs...); err != nil {
		return nil, err
	}
	return txCfg.TxEncoder()(b.GetTx())
}

// AccountInfo reads number and sequence of an account from committed state
// (used only to build well-formed transactions, never as an oracle).
func (n *Node) AccountInfo(addr sdk.AccAddress) (num, seq uint64, ok bool) {
	a := n.App.AccountKeeper.GetAccount(n.ReadCtx(), addr)
	if a == nil {
		return 0, 0, false
	}
	return a.GetAccountNumber(), a.GetSequence(), true
}

// Tx signs msgs from acc with its current committed sequence (+bump for
// several txs of the same account in one block).
func (n *Node) Tx(acc Account, bump uint64, o TxOpts, msgs ...sdk.Msg) ([]byte, error) {
	num, seq, ok := n.AccountInfo(acc.Addr())
	if !ok {
		return nil, fmt.Errorf("no account %s", acc.Bech32())
	}
	return SignTx(n.TxCfg, n.ChainID, acc, num, seq+bump, o, msgs...)
}

// ---- votes ----

// VoteCtx is the context a vote signs over.
type VoteCtx struct {
	ChainID  string
	Proposer string
	Sequence uint64
	Epoch    uint64
}

// SignDoc is the relayer vote sign doc (re-implemented from the statement:
// sha256(chain id, seq LE, epoch LE, method, proposer, payload)).
func SignDoc(method string, c VoteCtx, payload []byte) []byte {
	return sha256sum([]byte(c.ChainID), u64le(c.Sequence), u64le(c.Epoch), []byte(method), []byte(c.Proposer), payload)
}

func u64le(v uint64) []byte {
	b := make([]byte, 8)
	for i := 0; i < 8; i++ {
		b[i] = byte(v >> (8 * i))
	}
	return b
}

// Bitmap builds a little-endian bitmap of `bytes` length with the given bits set.
func Bitmap(bytes int, bits ...int) []byte {
	out := make([]byte, bytes)
	for _, b := range bits {
		if b/8 < bytes {
			out[b/8] |= 1 << (uint(b) % 8)
		}
	}
	return out
}

// MakeVotes aggregates the signatures of `signers` over doc and marks `marks`.
func MakeVotes(c VoteCtx, doc []byte, signers []BLSKey, bitmapBytes int, marks []int) (*relayertypes.Votes, error) {
	var sigs [][]byte
	for _, k := range signers {
		sigs = append(sigs, k.Sign(doc))
	}
	if len(sigs) == 0 {
		return nil, errors.New("no signers")
	}
	agg, err := goatcrypto.AggregateSignatures(sigs)
	if err != nil {
		return nil, err
	}
	return &relayertypes.Votes{Sequence: c.Sequence, Epoch: c.Epoch, Voters: Bitmap(bitmapBytes, marks...), Signature: agg}, nil
}

// ---- execution block proposal ----

// EthBlockOpts controls the harness-built execution-block message.
type EthBlockOpts struct {
	Plan      BuildPlan
	Timestamp uint64                            // 0 = block time - 10s
	Mutate    func(m *goattypes.MsgNewEthBlock) // applied before signing
	MutateEnv func(a *BuildAttrs)               // applied before building the payload
	Tx        TxOpts                            // TimeoutHeight 0 = the block height
	Signer    *Account                          // default: the proposer's account
}

// BuildEthBlockTx builds the execution-block transaction for block b the way
// createEthBlockProposal does, but in-process and deterministically.
func (n *Node) BuildEthBlockTx(b Block, proposer Account, o EthBlockOpts) ([]byte, *goattypes.MsgNewEthBlock, error) {
	ctx, _ := n.ReadCtx().CacheContext()
	parent, err := n.App.GoatKeeper.Block.Get(ctx)
	if err != nil {
		return nil, nil, err
	}
	beacon, err := n.App.GoatKeeper.BeaconRoot.Get(ctx)
	if err != nil {
		return nil, nil, err
	}
	goatTxs, err := n.App.GoatKeeper.Dequeue(ctx) // on a throw-away branch
	if err != nil {
		return nil, nil, err
	}
	ts := o.Timestamp
	if ts == 0 {
		ts = uint64(b.Time.Unix()) - 10
	}
	a := BuildAttrs{
		Parent: common.BytesToHash(parent.BlockHash), Timestamp: ts,
		Random:       common.BytesToHash(sha256sum([]byte("random"), b.Hash)),
		FeeRecipient: common.BytesToAddress(b.Proposer), Beacon: common.BytesToHash(beacon), GoatTxs: goatTxs,
	}
	if o.MutateEnv != nil {
		o.MutateEnv(&a)
	}
	env := BuildPayload(parent.BlockNumber+1, a, o.Plan)
	payload := goattypes.ExecutableDataToPayload(env.ExecutionPayload, beacon, env.Requests)
	msg := &goattypes.MsgNewEthBlock{Proposer: sdk.MustBech32ifyAddressBytes("goat", b.Proposer), Payload: payload}
	if o.Mutate != nil {
		o.Mutate(msg)
	}
	txo := o.Tx
	if txo.TimeoutHeight == 0 {
		txo.TimeoutHeight = uint64(b.Height)
	}
	signer := proposer
	if o.Signer != nil {
		signer = *o.Signer
	}
	raw, err := n.Tx(signer, 0, txo, msg)
	return raw, msg, err
}
