package world

import (
	"math/big"
	"testing"
	"time"

	abci "github.com/cometbft/cometbft/abci/types"
	"github.com/ethereum/go-ethereum/common"
	"github.com/ethereum/go-ethereum/core/types/goattypes"
)

// An honest proposer (real PrepareProposal) around a maturing unlock.
func TestHonestProposalAroundMaturingUnlock(t *testing.T) {
	spec := DefaultSpec(1, 2)
	spec.LockingParams.UnlockDuration = 7 * time.Second
	s, err := NewSim(spec)
	if err != nil {
		t.Fatal(err)
	}
	defer s.Close()
	val := NewAccount(DomValidator, 0)
	for i := 0; i < 8; i++ {
		if i == 1 {
			lr := goattypes.LockingRequests{Unlocks: []*goattypes.UnlockRequest{{Id: 1, Validator: val.EthAddr(), Recipient: common.Address{1}, Token: common.Address{}, Amount: big.NewInt(1000)}}}
			s.Node.Eng.SetPlan(BuildPlan{Requests: lr.Encode()})
		} else {
			s.Node.Eng.SetPlan(BuildPlan{})
		}
		b := s.Chain.NextBlock(5*time.Second, -1, nil, nil)
		pr, err := s.Node.Prepare(b.PrepareReq(nil))
		if err != nil {
			t.Fatal(err)
		}
		pp, err := s.Node.Process(b.ProcessReq(pr.Txs))
		if err != nil || pp.Status != abci.ResponseProcessProposal_ACCEPT {
			t.Fatalf("block %d: honest proposal not accepted: %v %v", i, err, pp)
		}
		r, err := s.Exec(b, pr.Txs, false)
		if err != nil {
			t.Fatal(err)
		}
		t.Logf("block %d height %d: eth tx code=%d log=%q", i, b.Height, r.Resp.TxResults[0].Code, r.Resp.TxResults[0].Log)
		if r.Resp.TxResults[0].Code != 0 {
			t.Errorf("block %d: the honest proposer's execution-block message failed when finalised: %s", i, r.Resp.TxResults[0].Log)
		}
	}
}
