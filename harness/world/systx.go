package world

import (
	"errors"
	"fmt"

	"github.com/ethereum/go-ethereum/core/types/goattypes"
	"github.com/ethereum/go-ethereum/rlp"
)

// SysTx is a decoded consensus-to-execution system transaction.
type SysTx struct {
	Module goattypes.Module
	Action goattypes.Action
	Nonce  uint64
	Tx     goattypes.Tx
	Raw    []byte
}

const goatTxType = 0x60

// DecodeSysTx decodes the typed-transaction envelope the consensus layer hands
// to the execution layer (type byte 0x60 || rlp(module, action, nonce, data)).
func DecodeSysTx(raw []byte) (SysTx, error) {
	if len(raw) < 2 || raw[0] != goatTxType {
		return SysTx{}, errors.New("not a goat system transaction")
	}
	var body struct {
		Module uint8
		Action uint8
		Nonce  uint64
		Data   []byte
	}
	if err := rlp.DecodeBytes(raw[1:], &body); err != nil {
		return SysTx{}, err
	}
	inner, err := goattypes.DecodeTx(goattypes.Module(body.Module), goattypes.Action(body.Action), body.Data)
	if err != nil {
		return SysTx{}, err
	}
	return SysTx{Module: goattypes.Module(body.Module), Action: goattypes.Action(body.Action), Nonce: body.Nonce, Tx: inner, Raw: raw}, nil
}

func (s SysTx) String() string {
	switch t := s.Tx.(type) {
	case *goattypes.DepositTx:
		return fmt.Sprintf("deposit#%d(%x:%d -> %x amount=%s tax=%s)", s.Nonce, t.Txid[:4], t.TxOut, t.Target[:4], t.Amount, t.Tax)
	case *goattypes.PaidTx:
		return fmt.Sprintf("paid#%d(id=%s %x:%d amount=%s)", s.Nonce, t.Id, t.Txid[:4], t.TxOut, t.Amount)
	case *goattypes.Cancel2Tx:
		return fmt.Sprintf("cancel2#%d(id=%s)", s.Nonce, t.Id)
	case *goattypes.NewBtcBlockTx:
		return fmt.Sprintf("newBtcBlock#%d(%x)", s.Nonce, t.Hash[:4])
	case *goattypes.CompleteUnlockTx:
		return fmt.Sprintf("completeUnlock#%d(id=%d token=%x amount=%s)", s.Nonce, t.Id, t.Token[:4], t.Amount)
	case *goattypes.DistributeRewardTx:
		return fmt.Sprintf("distributeReward#%d(id=%d goat=%s gas=%s)", s.Nonce, t.Id, t.Goat, t.GasReward)
	}
	return fmt.Sprintf("systx#%d(%d/%d)", s.Nonce, s.Module, s.Action)
}
