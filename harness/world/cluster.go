package world

import (
	"bytes"
	"fmt"

	abci "github.com/cometbft/cometbft/abci/types"
	dbm "github.com/cosmos/cosmos-db"
)

// Cluster is one chain replicated on several nodes: node i holds the key of
// validator i, has its own database and its own fake execution layer.
type Cluster struct {
	Spec  GenesisSpec
	Chain *Chain
	Nodes []*Node
	Keys  map[string]Account
}

func NewCluster(spec GenesisSpec, n int) (*Cluster, error) {
	c := &Cluster{Spec: spec, Keys: map[string]Account{}}
	for i := 0; i < n; i++ {
		node, err := NewNode(dbm.NewMemDB(), nil, i, spec.ChainID)
		if err != nil {
			c.Close()
			return nil, err
		}
		c.Nodes = append(c.Nodes, node)
		resp, err := node.InitChain(spec)
		if err != nil {
			c.Close()
			return nil, err
		}
		if i == 0 {
			ch, err := NewChain(spec, resp.Validators)
			if err != nil {
				c.Close()
				return nil, err
			}
			c.Chain = ch
		}
	}
	for _, v := range spec.Validators {
		a := NewAccount(DomValidator, v.Idx)
		c.Keys[string(a.Addr())] = a
	}
	for i := 0; i <= spec.RelayerVoters; i++ {
		a := NewAccount(DomRelayer, i)
		c.Keys[string(a.Addr())] = a
	}
	return c, nil
}

func (c *Cluster) Close() {
	for _, n := range c.Nodes {
		if n != nil {
			n.Close()
		}
	}
}

// NodeOf returns the node holding the key of the block's proposer (nil if none).
func (c *Cluster) NodeOf(b Block) *Node {
	for i, n := range c.Nodes {
		if bytes.Equal(NewAccount(DomValidator, i).Addr(), b.Proposer) {
			return n
		}
	}
	return nil
}

// ExecAll finalises and commits the block on every node and requires identical results.
func (c *Cluster) ExecAll(b Block, txs [][]byte) (*abci.ResponseFinalizeBlock, error) {
	var first *abci.ResponseFinalizeBlock
	for i, n := range c.Nodes {
		n.Eng.TakeLog()
		resp, err := n.Finalize(b.FinalizeReq(txs, c.Chain.NextVals.Hash()))
		if err != nil {
			return nil, fmt.Errorf("node %d FinalizeBlock height %d: %w", i, b.Height, err)
		}
		if err := n.Commit(); err != nil {
			return nil, fmt.Errorf("node %d Commit: %w", i, err)
		}
		if first == nil {
			first = resp
		} else if !bytes.Equal(first.AppHash, resp.AppHash) {
			return nil, fmt.Errorf("replica divergence at height %d: node 0 app hash %X, node %d app hash %X", b.Height, first.AppHash, i, resp.AppHash)
		}
	}
	if err := c.Chain.Decide(b, first.ValidatorUpdates); err != nil {
		return first, fmt.Errorf("consensus engine rejects validator updates at height %d: %w", b.Height, err)
	}
	return first, nil
}
