package world

import (
	"crypto/sha256"
	"encoding/hex"
	"encoding/json"
	"fmt"
	"os"
	"path/filepath"
	"sort"
	"sync"
	"time"

	"cosmossdk.io/log"
	storetypes "cosmossdk.io/store/types"
	abci "github.com/cometbft/cometbft/abci/types"
	cmsecp "github.com/cometbft/cometbft/crypto/secp256k1"
	cmtjson "github.com/cometbft/cometbft/libs/json"
	"github.com/cometbft/cometbft/privval"
	cmtproto "github.com/cometbft/cometbft/proto/tendermint/types"
	dbm "github.com/cosmos/cosmos-db"
	"github.com/cosmos/cosmos-sdk/baseapp"
	"github.com/cosmos/cosmos-sdk/client"
	"github.com/cosmos/cosmos-sdk/codec"
	sdk "github.com/cosmos/cosmos-sdk/types"
	"github.com/cosmos/cosmos-sdk/types/mempool"
	authtx "github.com/cosmos/cosmos-sdk/x/auth/tx"
	"github.com/cosmos/gogoproto/proto"
	"github.com/goatnetwork/goat/app"
	"github.com/goatnetwork/goat/pkg/ethrpc"
)

// ModuleStores are the four goat module stores compared by "state unchanged" oracles.
var ModuleStores = []string{"relayer", "bitcoin", "locking", "goat"}

// MempoolMaxTxs is the application mempool size of new nodes (cmd/goatd configures 10).
var MempoolMaxTxs = 10

type appOpts map[string]interface{}

func (m appOpts) Get(k string) interface{} { return m[k] }

// Node is one application instance with its fake execution layer.
type Node struct {
	App     *app.App
	DB      dbm.DB
	Eng     *Engine
	ValIdx  int
	ChainID string
	TxCfg   client.TxConfig
	ownEng  bool
}

var keyFileMu sync.Mutex

func privValFile(valIdx int) string {
	keyFileMu.Lock()
	defer keyFileMu.Unlock()
	dir := filepath.Join(WorkDir(), "k")
	_ = os.MkdirAll(dir, 0o755)
	p := filepath.Join(dir, fmt.Sprintf("%d-val%d.json", os.Getpid(), valIdx))
	if _, err := os.Stat(p); err == nil {
		return p
	}
	priv := cmsecp.PrivKey(SecpKey(DomValidator, valIdx).Key)
	pv := privval.FilePVKey{Address: priv.PubKey().Address(), PubKey: priv.PubKey(), PrivKey: priv}
	bz, err := cmtjson.MarshalIndent(pv, "", " ")
	if err != nil {
		panic(err)
	}
	if err := os.WriteFile(p, bz, 0o600); err != nil {
		panic(err)
	}
	return p
}

// NewNode creates (or, on an existing db, restarts) an application.
// eng == nil starts a private fake EL.
func NewNode(db dbm.DB, eng *Engine, valIdx int, chainID string) (n *Node, err error) {
	defer func() {
		if r := recover(); r != nil {
			err = fmt.Errorf("app.New panicked: %v", r)
		}
	}()
	own := false
	if eng == nil {
		eng = NewEngine()
		own = true
	}
	if db == nil {
		db = dbm.NewMemDB()
	}
	opts := appOpts{
		"goat.geth":               eng.Path(),
		"priv_validator_key_file": privValFile(valIdx),
		"home":                    WorkDir(),
	}
	// the node binary installs the sender-nonce mempool (server.DefaultBaseappOptions,
	// mempool.max-txs = 10 in cmd/goatd); a fixed seed keeps runs reproducible
	mp := mempool.NewSenderNonceMempool(mempool.SenderNonceMaxTxOpt(MempoolMaxTxs), mempool.SenderNonceSeedOpt(7))
	a, err := app.New(log.NewNopLogger(), db, nil, true, opts, baseapp.SetChainID(chainID), baseapp.SetMempool(mp))
	if err != nil {
		return nil, err
	}
	txCfg := authtx.NewTxConfig(codec.NewProtoCodec(a.AppCodec().InterfaceRegistry()), authtx.DefaultSignModes)
	return &Node{App: a, DB: db, Eng: eng, ValIdx: valIdx, ChainID: chainID, TxCfg: txCfg, ownEng: own}, nil
}

// Restart builds a fresh application on the same database and engine, the
// way a process restart does.  The old instance must not be used afterwards.
func (n *Node) Restart() (*Node, error) {
	n.closeClient()
	m, err := NewNode(n.DB, n.Eng, n.ValIdx, n.ChainID)
	if err != nil {
		return nil, err
	}
	m.ownEng = n.ownEng
	return m, nil
}

func (n *Node) closeClient() {
	if c, ok := n.App.EthClient.(*ethrpc.Client); ok && c != nil {
		c.Close()
	}
}

// Close releases the engine connection (and the engine if the node owns it).
func (n *Node) Close() {
	n.closeClient()
	if n.ownEng {
		n.Eng.Close()
	}
}

// InitChain runs InitChain from the spec.
func (n *Node) InitChain(s GenesisSpec) (*abci.ResponseInitChain, error) {
	def := n.App.DefaultGenesis()
	state, err := s.AppState(n.App.AppCodec(), def)
	if err != nil {
		return nil, err
	}
	return n.InitChainRaw(s.ChainID, s.InitialHeight, s, state, nil)
}

// InitChainRaw runs InitChain with a given app state and validator list.
func (n *Node) InitChainRaw(chainID string, initialHeight int64, s GenesisSpec, state json.RawMessage, vals []abci.ValidatorUpdate) (resp *abci.ResponseInitChain, err error) {
	defer func() {
		if r := recover(); r != nil {
			err = fmt.Errorf("InitChain panicked: %v", r)
		}
	}()
	return n.App.InitChain(&abci.RequestInitChain{
		Time: s.Time, ChainId: chainID, ConsensusParams: s.ConsensusParams(),
		Validators: vals, AppStateBytes: state, InitialHeight: initialHeight,
	})
}

// CommittedCtx is a read context on the last committed state.
func (n *Node) CommittedCtx() sdk.Context {
	return n.App.NewUncachedContext(false, cmtproto.Header{ChainID: n.ChainID, Height: n.App.LastBlockHeight()})
}

// ReadCtx is CommittedCtx once a block has been committed; before that (right
// after InitChain) the genesis state only exists in the finalize state.
func (n *Node) ReadCtx() sdk.Context {
	if n.App.LastBlockHeight() == 0 {
		return n.FinalizeCtx()
	}
	return n.CommittedCtx()
}

// FinalizeCtx is a read context on the not-yet-committed state of the block
// being finalised (valid between FinalizeBlock and Commit).
func (n *Node) FinalizeCtx() sdk.Context {
	return n.App.NewContextLegacy(false, cmtproto.Header{ChainID: n.ChainID, Height: n.App.LastBlockHeight() + 1})
}

// StoreDump is an opaque snapshot of the module stores: key -> value per store.
type StoreDump map[string]map[string]string

// DumpStores snapshots the named stores as seen by ctx.
func (n *Node) DumpStores(ctx sdk.Context, names ...string) StoreDump {
	if len(names) == 0 {
		names = ModuleStores
	}
	out := StoreDump{}
	for _, name := range names {
		key := n.App.GetKey(name)
		if key == nil {
			panic("no store " + name)
		}
		m := map[string]string{}
		it := ctx.KVStore(key).Iterator(nil, nil)
		for ; it.Valid(); it.Next() {
			m[string(it.Key())] = string(it.Value())
		}
		it.Close()
		out[name] = m
	}
	return out
}

// Hash is a digest of the dump.
func (d StoreDump) Hash() string {
	h := sha256.New()
	names := make([]string, 0, len(d))
	for k := range d {
		names = append(names, k)
	}
	sort.Strings(names)
	for _, name := range names {
		keys := make([]string, 0, len(d[name]))
		for k := range d[name] {
			keys = append(keys, k)
		}
		sort.Strings(keys)
		fmt.Fprintf(h, "store:%s:%d\n", name, len(keys))
		for _, k := range keys {
			fmt.Fprintf(h, "%d:%s=%d:%s\n", len(k), k, len(d[name][k]), d[name][k])
		}
	}
	return hex.EncodeToString(h.Sum(nil))
}

// Diff lists the keys that differ between two dumps (hex), for failure reports.
func (d StoreDump) Diff(o StoreDump) []string {
	var out []string
	for name, m := range d {
		om := o[name]
		for k, v := range m {
			if ov, ok := om[k]; !ok {
				out = append(out, fmt.Sprintf("%s/%x: only-left", name, k))
			} else if ov != v {
				out = append(out, fmt.Sprintf("%s/%x: %x != %x", name, k, v, ov))
			}
		}
		for k := range om {
			if _, ok := m[k]; !ok {
				out = append(out, fmt.Sprintf("%s/%x: only-right", name, k))
			}
		}
	}
	sort.Strings(out)
	return out
}

var _ = storetypes.StoreKey(nil)

// Query performs an ABCI gRPC-path query on committed state.
func (n *Node) Query(path string, req proto.Message, resp proto.Message) error {
	bz, err := proto.Marshal(req)
	if err != nil {
		return err
	}
	var r *abci.ResponseQuery
	if n.App.LastBlockHeight() == 0 {
		// nothing is committed yet (right after InitChain, e.g. on a chain re-imported from an export): the ABCI
		// query path has no version to read, so the same gRPC handler is run on the InitChain state
		h := n.App.GRPCQueryRouter().Route(path)
		if h == nil {
			return fmt.Errorf("query %s: no such route", path)
		}
		r, err = h(n.ReadCtx(), &abci.RequestQuery{Path: path, Data: bz})
	} else {
		r, err = n.App.Query(nil, &abci.RequestQuery{Path: path, Data: bz})
	}
	if err != nil {
		return err
	}
	if r.Code != 0 {
		return fmt.Errorf("query %s: code %d: %s", path, r.Code, r.Log)
	}
	return proto.Unmarshal(r.Value, resp)
}

// safe wrappers: a panic on the calling goroutine is turned into an error so
// that the property can report it with its case attached.

func (n *Node) CheckTx(tx []byte, recheck bool) (resp *abci.ResponseCheckTx, err error) {
	defer func() {
		if r := recover(); r != nil {
			err = fmt.Errorf("CheckTx panicked: %v", r)
		}
	}()
	t := abci.CheckTxType_New
	if recheck {
		t = abci.CheckTxType_Recheck
	}
	return n.App.CheckTx(&abci.RequestCheckTx{Tx: tx, Type: t})
}

// CallDeadline bounds PrepareProposal, ProcessProposal and FinalizeBlock: each normally takes milliseconds (engine
// requests have deadlines of their own), so a call that has not returned after this long is treated as hung. The
// goroutine of a hung call cannot be stopped; OnHang (set by the property runner) records the case and ends the process.
var CallDeadline = 180 * time.Second

// OnHang, if set, is called when a call exceeds CallDeadline; it is expected not to return.
var OnHang func(what string)

func guarded[T any](what string, f func() (T, error)) (T, error) {
	type out struct {
		v   T
		err error
	}
	ch := make(chan out, 1)
	go func() {
		var o out
		defer func() {
			if r := recover(); r != nil {
				o.err = fmt.Errorf("%s panicked: %v", what, r)
			}
			ch <- o
		}()
		o.v, o.err = f()
	}()
	select {
	case o := <-ch:
		return o.v, o.err
	case <-time.After(CallDeadline):
		msg := fmt.Sprintf("%s did not return within %s (hung)", what, CallDeadline)
		if OnHang != nil {
			OnHang(msg)
		}
		var zero T
		return zero, fmt.Errorf("%s", msg)
	}
}

func (n *Node) Prepare(req *abci.RequestPrepareProposal) (*abci.ResponsePrepareProposal, error) {
	return guarded("PrepareProposal", func() (*abci.ResponsePrepareProposal, error) { return n.App.PrepareProposal(req) })
}

func (n *Node) Process(req *abci.RequestProcessProposal) (*abci.ResponseProcessProposal, error) {
	return guarded("ProcessProposal", func() (*abci.ResponseProcessProposal, error) { return n.App.ProcessProposal(req) })
}

func (n *Node) Finalize(req *abci.RequestFinalizeBlock) (*abci.ResponseFinalizeBlock, error) {
	return guarded("FinalizeBlock", func() (*abci.ResponseFinalizeBlock, error) { return n.App.FinalizeBlock(req) })
}

func (n *Node) Commit() (err error) {
	defer func() {
		if r := recover(); r != nil {
			err = fmt.Errorf("Commit panicked: %v", r)
		}
	}()
	_, err = n.App.Commit()
	return err
}

// DiscardUncommitted throws away the root store's uncommitted working set by
// reloading the last committed version (what a crash before Commit amounts to,
// without rebuilding the application object).
func (n *Node) DiscardUncommitted() (err error) {
	defer func() {
		if r := recover(); r != nil {
			err = fmt.Errorf("LoadLatestVersion panicked: %v", r)
		}
	}()
	return n.App.CommitMultiStore().LoadLatestVersion()
}
