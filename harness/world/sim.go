package world

import (
	"bytes"
	"fmt"
	"os"
	"path/filepath"
	"sync"
	"time"

	abci "github.com/cometbft/cometbft/abci/types"
	cmttypes "github.com/cometbft/cometbft/types"
	dbm "github.com/cosmos/cosmos-db"
)

// Sim is one simulated chain: the CometBFT-side model plus one application node
// (more replicas can be attached by the properties that need them).
type Sim struct {
	Spec  GenesisSpec
	Chain *Chain
	Node  *Node
	// Keys maps a 20-byte address (string) to the account that owns it.
	Keys map[string]Account
	// InitVals is the validator list returned by InitChain.
	InitVals []abci.ValidatorUpdate
	// Replicas execute every block of Exec/Step as well (own store, own fake EL, other node key);
	// any difference in app hash or transaction results is returned as a "replica divergence" error.
	Replicas []*Node
	// OnReimport, if set, is called by Reimport with a function that replaces a node by a fresh application booted
	// from the same export, keeping the node's fake EL (for replicas a property manages itself).
	OnReimport func(reboot func(old *Node) (*Node, error)) error
	tmpDirs    []string
}

var (
	replicaDirMu  sync.Mutex
	replicaDirSeq int
)

// AddReplica attaches a replica; it must be called before the first block.
func (s *Sim) AddReplica() error {
	var db dbm.DB = dbm.NewMemDB()
	if ReplicasCold {
		// a cold replica reloads its state from disk before every block: only a real database makes that different
		// from the primary's warm in-memory state (a MemDB hands out its own buffers)
		replicaDirMu.Lock()
		replicaDirSeq++
		dir := filepath.Join(WorkDir(), "db", fmt.Sprintf("%d-cold-%d", os.Getpid(), replicaDirSeq))
		replicaDirMu.Unlock()
		_ = os.MkdirAll(dir, 0o755)
		ldb, err := dbm.NewGoLevelDB("app", dir, nil)
		if err != nil {
			return err
		}
		db = ldb
		s.tmpDirs = append(s.tmpDirs, dir)
	}
	n, err := NewNode(db, nil, 1+len(s.Replicas), s.Spec.ChainID)
	if err != nil {
		return err
	}
	if _, err := n.InitChain(s.Spec); err != nil {
		n.Close()
		return err
	}
	s.Replicas = append(s.Replicas, n)
	return nil
}

// DivergenceError reports that two executions of the same block disagree.
type DivergenceError struct{ Detail string }

func (e *DivergenceError) Error() string { return "replica divergence: " + e.Detail }

func compareFinalize(a, b *abci.ResponseFinalizeBlock) string {
	if !bytes.Equal(a.AppHash, b.AppHash) {
		return fmt.Sprintf("app hash %X vs %X", a.AppHash, b.AppHash)
	}
	if len(a.TxResults) != len(b.TxResults) {
		return "number of tx results"
	}
	for i := range a.TxResults {
		x, y := a.TxResults[i], b.TxResults[i]
		if x.Code != y.Code || x.Codespace != y.Codespace {
			return fmt.Sprintf("tx %d code %d/%s vs %d/%s", i, x.Code, x.Codespace, y.Code, y.Codespace)
		}
		if x.GasUsed != y.GasUsed || x.GasWanted != y.GasWanted {
			return fmt.Sprintf("tx %d (code %d) gas used %d vs %d (%s)", i, x.Code, x.GasUsed, y.GasUsed, x.Log)
		}
		if !bytes.Equal(x.Data, y.Data) {
			return fmt.Sprintf("tx %d data", i)
		}
	}
	return ""
}

// NewSim starts a node, runs InitChain and seeds the consensus model.
// ReplicasWanted makes every new Sim attach that many replicas (used by the determinism property).
var ReplicasWanted = 0

// ReplicasCold makes every replica restart (fresh process-local state, state reloaded from its store) before each
// block it executes, so that it never shares the primary's execution history.
var ReplicasCold = false

func (s *Sim) coldReplica(i int) error {
	r := s.Replicas[i]
	if !ReplicasCold || r.App.LastBlockHeight() == 0 {
		return nil // nothing committed yet: a restart would lose the InitChain state
	}
	n2, err := r.Restart()
	if err != nil {
		return fmt.Errorf("replica restart: %w", err)
	}
	s.Replicas[i] = n2
	return nil
}

func NewSim(spec GenesisSpec) (*Sim, error) {
	s, err := newSim(spec)
	if err != nil {
		return nil, err
	}
	for i := 0; i < ReplicasWanted; i++ {
		if err := s.AddReplica(); err != nil {
			s.Close()
			return nil, err
		}
	}
	return s, nil
}

func newSim(spec GenesisSpec) (*Sim, error) {
	n, err := NewNode(dbm.NewMemDB(), nil, 0, spec.ChainID)
	if err != nil {
		return nil, err
	}
	s := &Sim{Spec: spec, Node: n, Keys: map[string]Account{}}
	resp, err := n.InitChain(spec)
	if err != nil {
		n.Close()
		return nil, err
	}
	s.InitVals = resp.Validators
	c, err := NewChain(spec, resp.Validators)
	if err != nil {
		n.Close()
		return nil, err
	}
	s.Chain = c
	for _, v := range spec.Validators {
		s.RegisterKey(NewAccount(DomValidator, v.Idx))
	}
	for i := 0; i <= spec.RelayerVoters; i++ {
		s.RegisterKey(NewAccount(DomRelayer, i))
	}
	for _, a := range spec.ExtraAccounts {
		s.RegisterKey(a)
	}
	return s, nil
}

func (s *Sim) RegisterKey(a Account) { s.Keys[string(a.Addr())] = a }

func (s *Sim) Close() {
	if s.Node != nil {
		s.Node.Close()
	}
	for _, r := range s.Replicas {
		r.Close()
		if c, ok := r.DB.(interface{ Close() error }); ok && len(s.tmpDirs) > 0 {
			_ = c.Close()
		}
	}
	for _, d := range s.tmpDirs {
		_ = os.RemoveAll(d)
	}
}

// StepOpts describes one block.
type StepOpts struct {
	DT       time.Duration
	Proposer int // <0: CometBFT's choice
	Absent   map[string]bool
	Evidence []Evidence
	Eth      EthBlockOpts
	NoEth    bool     // do not put an execution-block message in the block
	Txs      [][]byte // after the execution-block tx
	Process  bool     // also run ProcessProposal first (and require ACCEPT)
}

// StepResult is what a block produced.
type StepResult struct {
	Block   Block
	Txs     [][]byte
	Resp    *abci.ResponseFinalizeBlock
	EngLog  []Call
	Process *abci.ResponseProcessProposal
	Req     *abci.RequestFinalizeBlock
}

// Begin computes the consensus-side block and the tx list without executing.
func (s *Sim) Begin(o StepOpts) (Block, [][]byte, error) {
	b := s.Chain.NextBlock(o.DT, o.Proposer, o.Absent, o.Evidence)
	var txs [][]byte
	if !o.NoEth {
		prop, ok := s.Keys[string(b.Proposer)]
		if !ok {
			return b, nil, fmt.Errorf("no key for proposer %x", b.Proposer)
		}
		raw, _, err := s.Node.BuildEthBlockTx(b, prop, o.Eth)
		if err != nil {
			return b, nil, fmt.Errorf("build eth block tx: %w", err)
		}
		txs = append(txs, raw)
	}
	txs = append(txs, o.Txs...)
	return b, txs, nil
}

// Step runs one full block: [ProcessProposal] FinalizeBlock, Commit, and feeds
// the validator updates to the consensus model.  Any error is either an
// application failure (FinalizeBlock/Commit error) or a CometBFT-side rejection
// of the validator updates; both would halt a real chain.
func (s *Sim) Step(o StepOpts) (*StepResult, error) {
	b, txs, err := s.Begin(o)
	if err != nil {
		return nil, err
	}
	return s.Exec(b, txs, o.Process)
}

// Exec executes a prepared block.
func (s *Sim) Exec(b Block, txs [][]byte, process bool) (*StepResult, error) {
	res := &StepResult{Block: b, Txs: txs}
	s.Node.Eng.TakeLog()
	if process {
		pr, err := s.Node.Process(b.ProcessReq(txs))
		if err != nil {
			return res, fmt.Errorf("ProcessProposal: %w", err)
		}
		res.Process = pr
		if pr.Status != abci.ResponseProcessProposal_ACCEPT {
			return res, fmt.Errorf("ProcessProposal rejected an honest block")
		}
	}
	res.Req = b.FinalizeReq(txs, s.Chain.NextVals.Hash())
	resp, err := s.Node.Finalize(res.Req)
	res.EngLog = s.Node.Eng.TakeLog()
	if err != nil {
		return res, fmt.Errorf("FinalizeBlock height %d: %w", b.Height, err)
	}
	res.Resp = resp
	for i := range s.Replicas {
		if err := s.coldReplica(i); err != nil {
			return res, err
		}
		r := s.Replicas[i]
		rr, err := r.Finalize(res.Req)
		if err != nil {
			return res, &DivergenceError{Detail: fmt.Sprintf("replica %d FinalizeBlock failed at height %d: %v", i, b.Height, err)}
		}
		if d := compareFinalize(resp, rr); d != "" {
			return res, &DivergenceError{Detail: fmt.Sprintf("height %d replica %d: %s", b.Height, i, d)}
		}
		if err := r.Commit(); err != nil {
			return res, fmt.Errorf("replica Commit: %w", err)
		}
		r.Eng.TakeLog()
	}
	if err := s.Node.Commit(); err != nil {
		return res, fmt.Errorf("Commit: %w", err)
	}
	if err := s.Chain.Decide(b, resp.ValidatorUpdates); err != nil {
		return res, fmt.Errorf("consensus engine rejects validator updates at height %d: %w", b.Height, err)
	}
	return res, nil
}

// TwinResult holds both executions of ExecTwin.
type TwinResult struct {
	Block       Block
	Without     *abci.ResponseFinalizeBlock
	With        *abci.ResponseFinalizeBlock
	DumpWithout StoreDump
	DumpWith    StoreDump
}

// ExecTwin executes block b twice on the same instance without committing in
// between: first with txsWithout, then (ProcessProposal resets the finalize
// state above the initial height) with txsWith, which is the one committed.
// The module-store dumps of both executions let a property compare "block
// with transaction X" against "the same block without X".
func (s *Sim) ExecTwin(b Block, txsWithout, txsWith [][]byte) (*TwinResult, error) {
	if b.Height <= s.Chain.Initial {
		return nil, fmt.Errorf("twin execution needs a height above the initial one")
	}
	res := &TwinResult{Block: b}
	r1, err := s.Node.Finalize(b.FinalizeReq(txsWithout, s.Chain.NextVals.Hash()))
	if err != nil {
		return res, fmt.Errorf("FinalizeBlock(without) height %d: %w", b.Height, err)
	}
	res.Without = r1
	res.DumpWithout = s.Node.DumpStores(s.Node.FinalizeCtx())
	// FinalizeBlock flushes the block's writes into the root store's working
	// set (baseapp.workingHash); reloading the committed version discards it,
	// and ProcessProposal then installs a fresh finalize state.
	if err := s.Node.DiscardUncommitted(); err != nil {
		return res, fmt.Errorf("discard uncommitted: %w", err)
	}
	if _, err := s.Node.Process(b.ProcessReq(txsWithout)); err != nil {
		return res, fmt.Errorf("ProcessProposal (reset): %w", err)
	}
	r2, err := s.Node.Finalize(b.FinalizeReq(txsWith, s.Chain.NextVals.Hash()))
	if err != nil {
		return res, fmt.Errorf("FinalizeBlock(with) height %d: %w", b.Height, err)
	}
	res.With = r2
	res.DumpWith = s.Node.DumpStores(s.Node.FinalizeCtx())
	s.Node.Eng.TakeLog()
	for i := range s.Replicas {
		if err := s.coldReplica(i); err != nil {
			return res, err
		}
		r := s.Replicas[i]
		rr, err := r.Finalize(b.FinalizeReq(txsWith, s.Chain.NextVals.Hash()))
		if err != nil {
			return res, &DivergenceError{Detail: fmt.Sprintf("replica %d FinalizeBlock failed at height %d: %v", i, b.Height, err)}
		}
		if d := compareFinalize(r2, rr); d != "" {
			return res, &DivergenceError{Detail: fmt.Sprintf("height %d replica %d: %s", b.Height, i, d)}
		}
		if err := r.Commit(); err != nil {
			return res, fmt.Errorf("replica Commit: %w", err)
		}
		r.Eng.TakeLog()
	}
	if err := s.Node.Commit(); err != nil {
		return res, fmt.Errorf("Commit: %w", err)
	}
	if err := s.Chain.Decide(b, r2.ValidatorUpdates); err != nil {
		return res, fmt.Errorf("consensus engine rejects validator updates at height %d: %w", b.Height, err)
	}
	return res, nil
}

// Reimport ends the running chain and continues the history on a fresh application that is
// initialised from the exported state (ExportAppStateAndValidators -> InitChain at the next height,
// with the exported validators), the way a chain is restarted from an export. The fake EL, the block
// clock and the registered keys carry over; the consensus model is re-seeded from the InitChain
// response (so the first block of the new chain has an empty last commit). Replicas are re-created
// from the same export.
func (s *Sim) Reimport() (err error) {
	defer func() {
		if r := recover(); r != nil {
			err = fmt.Errorf("export/import panicked: %v", r)
		}
	}()
	e1, err := s.Node.App.ExportAppStateAndValidators(false, nil, nil)
	if err != nil {
		return fmt.Errorf("export: %w", err)
	}
	var reqVals []abci.ValidatorUpdate
	for _, v := range e1.Validators {
		tv := cmttypes.NewValidator(v.PubKey, v.Power)
		reqVals = append(reqVals, cmttypes.TM2PB.ValidatorUpdate(tv))
	}
	spec2 := s.Spec
	spec2.Time = s.Chain.Time
	spec2.InitialHeight = e1.Height
	boot := func(eng *Engine, valIdx int) (*Node, *abci.ResponseInitChain, error) {
		m, err := NewNode(dbm.NewMemDB(), eng, valIdx, s.Spec.ChainID)
		if err != nil {
			return nil, nil, err
		}
		resp, err := m.InitChainRaw(s.Spec.ChainID, e1.Height, spec2, e1.AppState, reqVals)
		if err != nil {
			m.Close()
			return nil, nil, fmt.Errorf("InitChain from the exported state: %w", err)
		}
		return m, resp, nil
	}
	reboot := func(old *Node) (*Node, *abci.ResponseInitChain, error) {
		old.closeClient()
		m, resp, err := boot(old.Eng, old.ValIdx)
		if err != nil {
			return nil, nil, err
		}
		m.ownEng = old.ownEng
		return m, resp, nil
	}
	m, resp, err := reboot(s.Node)
	if err != nil {
		return err
	}
	ch, err := NewChain(spec2, resp.Validators)
	if err != nil {
		m.Close()
		return fmt.Errorf("initial validator set of the re-imported chain: %w", err)
	}
	s.Node, s.Chain, s.Spec, s.InitVals = m, ch, spec2, resp.Validators
	for i, r := range s.Replicas {
		n, _, err := reboot(r)
		if err != nil {
			return fmt.Errorf("replica: %w", err)
		}
		s.Replicas[i] = n
	}
	if s.OnReimport != nil {
		if err := s.OnReimport(func(old *Node) (*Node, error) {
			n, _, err := reboot(old)
			return n, err
		}); err != nil {
			return fmt.Errorf("replica: %w", err)
		}
	}
	return nil
}
