package world

import (
	"bytes"
	"crypto/sha256"
	"encoding/binary"

	"github.com/btcsuite/btcd/chaincfg/chainhash"
	"github.com/btcsuite/btcd/wire"
)

// DSha is Bitcoin's double SHA-256 (crypto/sha256 directly; not the code under test).
func DSha(b []byte) []byte {
	a := sha256.Sum256(b)
	c := sha256.Sum256(a[:])
	return c[:]
}

// MerkleTree is a reference Bitcoin Merkle tree (last node duplicated on odd levels).
type MerkleTree struct {
	Levels [][][]byte // Levels[0] = leaves (unpadded), last level = [root]
}

func NewMerkleTree(leaves [][]byte) *MerkleTree {
	t := &MerkleTree{Levels: [][][]byte{leaves}}
	cur := leaves
	for len(cur) > 1 {
		var next [][]byte
		for i := 0; i < len(cur); i += 2 {
			l := cur[i]
			r := l
			if i+1 < len(cur) {
				r = cur[i+1]
			}
			next = append(next, DSha(append(append([]byte{}, l...), r...)))
		}
		t.Levels = append(t.Levels, next)
		cur = next
	}
	return t
}

func (t *MerkleTree) Root() []byte { return t.Levels[len(t.Levels)-1][0] }
func (t *MerkleTree) Depth() int   { return len(t.Levels) - 1 }
func (t *MerkleTree) N() int       { return len(t.Levels[0]) }

// Path is the genuine authentication path of leaf x (concatenated 32-byte nodes).
func (t *MerkleTree) Path(x int) []byte {
	var out []byte
	idx := x
	for l := 0; l < t.Depth(); l++ {
		lvl := t.Levels[l]
		sib := idx ^ 1
		if sib >= len(lvl) {
			sib = idx // duplicated last node
		}
		out = append(out, lvl[sib]...)
		idx >>= 1
	}
	return out
}

// Occupant returns the index of the real leaf that sits at position q of the
// padded tree (mirrors of a duplicated last node map to the node they copy),
// or -1 if q is outside the padded tree (q >= 2^depth).
func (t *MerkleTree) Occupant(q uint64) int {
	d := t.Depth()
	if d < 64 && q >= (uint64(1)<<uint(d)) {
		return -1
	}
	idx := 0
	for l := d; l > 0; l-- {
		bit := int((q >> uint(l-1)) & 1)
		child := 2*idx + bit
		if cnt := len(t.Levels[l-1]); child >= cnt {
			child = cnt - 1
		}
		idx = child
	}
	return idx
}

// ---- Bitcoin blocks and transactions ----

// BtcBlock is a model Bitcoin block: transactions, header, tree.
type BtcBlock struct {
	Height uint64
	Txs    []*wire.MsgTx
	Raw    [][]byte // non-witness serialisations
	Txids  [][]byte
	Tree   *MerkleTree
	Header []byte // 80 bytes
	Hash   []byte
}

// SerializeNoWitness returns the non-witness serialisation of tx.
func SerializeNoWitness(tx *wire.MsgTx) []byte {
	var buf bytes.Buffer
	if err := tx.SerializeNoWitness(&buf); err != nil {
		panic(err)
	}
	return buf.Bytes()
}

// FillerTx is an unrelated transaction (unique per (height, i)).
func FillerTx(height uint64, i int) *wire.MsgTx {
	tx := wire.NewMsgTx(2)
	var prev chainhash.Hash
	copy(prev[:], sha256sum([]byte("filler"), u64le(height), u64le(uint64(i))))
	tx.AddTxIn(wire.NewTxIn(wire.NewOutPoint(&prev, uint32(i)), nil, nil))
	tx.AddTxOut(wire.NewTxOut(int64(50_000+i), append([]byte{0x00, 0x14}, sha256sum(prev[:])[:20]...)))
	return tx
}

// CoinbaseTx is a model coinbase with the given outputs.
func CoinbaseTx(height uint64, outs ...*wire.TxOut) *wire.MsgTx {
	tx := wire.NewMsgTx(2)
	in := wire.NewTxIn(wire.NewOutPoint(&chainhash.Hash{}, 0xffffffff), append([]byte{0x03}, u64le(height)[:3]...), nil)
	tx.AddTxIn(in)
	for _, o := range outs {
		tx.AddTxOut(o)
	}
	if len(outs) == 0 {
		tx.AddTxOut(wire.NewTxOut(50_0000_0000, append([]byte{0x00, 0x14}, sha256sum(u64le(height))[:20]...)))
	}
	return tx
}

// NewBtcBlock builds a block from transactions and the previous block hash.
func NewBtcBlock(height uint64, prev []byte, txs []*wire.MsgTx) *BtcBlock {
	b := &BtcBlock{Height: height, Txs: txs}
	for _, tx := range txs {
		raw := SerializeNoWitness(tx)
		b.Raw = append(b.Raw, raw)
		b.Txids = append(b.Txids, DSha(raw))
	}
	b.Tree = NewMerkleTree(b.Txids)
	h := make([]byte, 80)
	binary.LittleEndian.PutUint32(h[0:4], 0x20000000)
	copy(h[4:36], prev)
	copy(h[36:68], b.Tree.Root())
	binary.LittleEndian.PutUint32(h[68:72], uint32(1_700_000_000+height*600))
	binary.LittleEndian.PutUint32(h[72:76], 0x1d00ffff)
	binary.LittleEndian.PutUint32(h[76:80], uint32(height))
	b.Header = h
	b.Hash = DSha(h)
	return b
}
