package world

import (
	"testing"
	"time"
)

func TestSmoke(t *testing.T) {
	s, err := NewSim(DefaultSpec(3, 3))
	if err != nil {
		t.Fatal(err)
	}
	defer s.Close()
	start := time.Now()
	for i := 0; i < 50; i++ {
		r, err := s.Step(StepOpts{DT: 5 * time.Second, Proposer: -1, Process: i%2 == 0})
		if err != nil {
			t.Fatalf("block %d: %v", i, err)
		}
		if r.Resp.TxResults[0].Code != 0 {
			t.Fatalf("block %d: eth tx failed: %s", i, r.Resp.TxResults[0].Log)
		}
	}
	t.Logf("50 blocks in %v, apphash height %d", time.Since(start), s.Chain.Height)
}
