// Package world simulates everything around one goat node: a fake execution
// layer served over IPC, a model of the CometBFT side (validator set, commits,
// evidence, time), a Bitcoin block/transaction model, deterministic keys and
// the builders for transactions and votes.  It never pokes stores directly:
// configurations enter through genesis, everything else through ABCI calls.
package world

import (
	"crypto/sha256"
	"encoding/binary"

	"github.com/btcsuite/btcd/btcec/v2"
	"github.com/btcsuite/btcd/btcec/v2/schnorr"
	"github.com/cosmos/cosmos-sdk/crypto/keys/secp256k1"
	sdk "github.com/cosmos/cosmos-sdk/types"
	"github.com/ethereum/go-ethereum/common"
	goatcrypto "github.com/goatnetwork/goat/pkg/crypto"
	relayertypes "github.com/goatnetwork/goat/x/relayer/types"
	blst "github.com/supranational/blst/bindings/go"
)

// Key domains: every key used by the harness is a pure function of
// (domain, index) so that a replay file needs no key material.
const (
	DomValidator = "validator"
	DomRelayer   = "relayer"
	DomBtc       = "btckey"
	DomStranger  = "stranger"
)

func seed32(domain string, idx int) []byte {
	var b [8]byte
	binary.LittleEndian.PutUint64(b[:], uint64(idx))
	h := sha256.Sum256(append([]byte("goat-verif/"+domain+"/"), b[:]...))
	return h[:]
}

// SecpKey returns a deterministic cosmos secp256k1 private key.
func SecpKey(domain string, idx int) *secp256k1.PrivKey {
	s := seed32(domain, idx)
	// make sure the scalar is valid (non-zero, below the order); re-hash otherwise
	for {
		var sc btcec.ModNScalar
		if overflow := sc.SetByteSlice(s); !overflow && !sc.IsZero() {
			break
		}
		h := sha256.Sum256(s)
		s = h[:]
	}
	return &secp256k1.PrivKey{Key: s}
}

// Account is a tx-signing identity.
type Account struct {
	Domain string
	Idx    int
	Priv   *secp256k1.PrivKey
}

func NewAccount(domain string, idx int) Account {
	return Account{Domain: domain, Idx: idx, Priv: SecpKey(domain, idx)}
}

func (a Account) PubKey() *secp256k1.PubKey { return a.Priv.PubKey().(*secp256k1.PubKey) }
func (a Account) Addr() sdk.AccAddress      { return sdk.AccAddress(a.Priv.PubKey().Address()) }
func (a Account) EthAddr() common.Address   { return common.BytesToAddress(a.Addr()) }
func (a Account) Bech32() string            { return sdk.MustBech32ifyAddressBytes("goat", a.Addr()) }

// Uncompressed64 returns the 64-byte X||Y public key used by locking create requests.
func (a Account) Uncompressed64() (out [64]byte) {
	pk, err := btcec.ParsePubKey(a.PubKey().Key)
	if err != nil {
		panic(err)
	}
	copy(out[:], pk.SerializeUncompressed()[1:])
	return
}

// BLSKey is a deterministic BLS vote key.
type BLSKey struct {
	SK *blst.SecretKey
	PK []byte // 96-byte compressed G2
}

func NewBLSKey(domain string, idx int) BLSKey {
	sk := blst.KeyGenV3(seed32("bls/"+domain, idx))
	pk := new(goatcrypto.PublicKey).From(sk).Compress()
	return BLSKey{SK: sk, PK: pk}
}

func (k BLSKey) Sign(msg []byte) []byte { return goatcrypto.Sign(k.SK, msg) }

// BtcKey is a relayer Bitcoin key (ECDSA compressed or Schnorr x-only).
type BtcKey struct {
	Idx     int
	Schnorr bool
	Priv    *btcec.PrivateKey
}

func NewBtcKey(idx int, isSchnorr bool) BtcKey {
	p := SecpKey(DomBtc, idx)
	priv, _ := btcec.PrivKeyFromBytes(p.Key)
	return BtcKey{Idx: idx, Schnorr: isSchnorr, Priv: priv}
}

func (k BtcKey) Public() *relayertypes.PublicKey {
	if k.Schnorr {
		return &relayertypes.PublicKey{Key: &relayertypes.PublicKey_Schnorr{Schnorr: schnorr.SerializePubKey(k.Priv.PubKey())}}
	}
	return &relayertypes.PublicKey{Key: &relayertypes.PublicKey_Secp256K1{Secp256K1: k.Priv.PubKey().SerializeCompressed()}}
}
