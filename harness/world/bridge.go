package world

import (
	"crypto/sha256"

	"github.com/btcsuite/btcd/btcec/v2/schnorr"
	"github.com/btcsuite/btcd/chaincfg/chainhash"
	"github.com/btcsuite/btcd/txscript"
	"github.com/btcsuite/btcd/wire"
	bitcointypes "github.com/goatnetwork/goat/x/bitcoin/types"
	relayertypes "github.com/goatnetwork/goat/x/relayer/types"
	"golang.org/x/crypto/ripemd160"
)

// Hash160 = RIPEMD160(SHA256(x)), implemented here (not the code under test).
func Hash160(b []byte) []byte {
	s := sha256.Sum256(b)
	r := ripemd160.New()
	r.Write(s[:])
	return r.Sum(nil)
}

func P2WPKHScript(h20 []byte) []byte { return append([]byte{0x00, 0x14}, h20...) }
func P2WSHScript(h32 []byte) []byte  { return append([]byte{0x00, 0x20}, h32...) }
func P2TRScript(x32 []byte) []byte   { return append([]byte{0x51, 0x20}, x32...) }
func P2PKHScript(h20 []byte) []byte {
	return append(append([]byte{0x76, 0xa9, 0x14}, h20...), 0x88, 0xac)
}
func P2SHScript(h20 []byte) []byte { return append(append([]byte{0xa9, 0x14}, h20...), 0x87) }

// SystemScript is the script that pays the relayer key itself (change output).
func SystemScript(k BtcKey) []byte {
	if k.Schnorr {
		out := txscript.ComputeTaprootKeyNoScript(k.Priv.PubKey())
		return P2TRScript(schnorr.SerializePubKey(out))
	}
	return P2WPKHScript(Hash160(k.Priv.PubKey().SerializeCompressed()))
}

// DepositScriptV0 is the version-0 deposit script for (key, evm address).
func DepositScriptV0(k BtcKey, evm []byte) []byte {
	if k.Schnorr {
		out := txscript.ComputeTaprootOutputKey(k.Priv.PubKey(), evm)
		return P2TRScript(schnorr.SerializePubKey(out))
	}
	// <evm> OP_DROP <pubkey> OP_CHECKSIG
	pk := k.Priv.PubKey().SerializeCompressed()
	s := []byte{0x14}
	s = append(s, evm...)
	s = append(s, 0x75, 0x21)
	s = append(s, pk...)
	s = append(s, 0xac)
	h := sha256.Sum256(s)
	return P2WSHScript(h[:])
}

// DepositScriptsV1 returns the P2WPKH output script and the OP_RETURN data script.
func DepositScriptsV1(k BtcKey, magic, evm []byte) ([]byte, []byte) {
	out0 := P2WPKHScript(Hash160(k.Priv.PubKey().SerializeCompressed()))
	data := append(append([]byte{}, magic...), evm...)
	out1 := append([]byte{0x6a, byte(len(data))}, data...)
	return out0, out1
}

// SpendTx builds a one-input transaction with the given outputs; salt makes the txid unique.
func SpendTx(salt uint64, outs ...*wire.TxOut) *wire.MsgTx {
	tx := wire.NewMsgTx(2)
	var prev chainhash.Hash
	copy(prev[:], sha256sum([]byte("spend"), u64le(salt)))
	tx.AddTxIn(wire.NewTxIn(wire.NewOutPoint(&prev, uint32(salt%4)), nil, nil))
	for _, o := range outs {
		tx.AddTxOut(o)
	}
	return tx
}

// ---- vote payloads (re-implemented from the current wire formats; a change of
// what a vote binds shows up as honest votes being rejected or as a tampered
// message being accepted) ----

func DocNewPubkey(pk *relayertypes.PublicKey) []byte {
	switch v := pk.Key.(type) {
	case *relayertypes.PublicKey_Secp256K1:
		return append([]byte{0}, v.Secp256K1...)
	case *relayertypes.PublicKey_Schnorr:
		return append([]byte{1}, v.Schnorr...)
	}
	return nil
}

func DocNewBlocks(start uint64, hashes [][]byte) []byte {
	d := make([]byte, 8)
	d = append(d, u64le(start)...)
	for _, h := range hashes {
		d = append(d, h...)
	}
	return d
}

func DocProcess(ids []uint64, tx []byte, fee uint64) []byte {
	var d []byte
	for _, id := range ids {
		d = append(d, u64le(id)...)
	}
	h := sha256.Sum256(tx)
	d = append(d, h[:]...)
	return append(d, u64le(fee)...)
}

func DocReplace(pid, fee uint64, tx []byte) []byte {
	h := sha256.Sum256(tx)
	return append(append(u64le(pid), u64le(fee)...), h[:]...)
}

func DocConsolidation(tx []byte) []byte {
	h := sha256.Sum256(tx)
	return h[:]
}

const (
	MethodNewPubkey     = "Bitcoin/NewPubkey"
	MethodNewBlocks     = "Bitcoin/NewBlocks"
	MethodProcess       = "Bitcoin/ProcessWithdrawal"
	MethodReplace       = "Bitcoin/ReplaceWithdrawal"
	MethodConsolidation = "Bitcoin/NewConsolidation"
)

// RelayerView is the group as reported by Query/Relayer.
type RelayerView struct {
	Proposer string
	Voters   []string
	Epoch    uint64
	Sequence uint64
	Accepted bool
}

func (n *Node) RelayerView() (RelayerView, error) {
	var resp relayertypes.QueryRelayerResponse
	if err := n.Query("/goat.relayer.v1.Query/Relayer", &relayertypes.QueryRelayerRequest{}, &resp); err != nil {
		return RelayerView{}, err
	}
	r := resp.Relayer
	return RelayerView{Proposer: r.Proposer, Voters: r.Voters, Epoch: r.Epoch, Sequence: resp.Sequence, Accepted: r.ProposerAccepted}, nil
}

func (n *Node) BtcTip() (uint64, error) {
	var resp bitcointypes.QueryBlockTipResponse
	if err := n.Query("/goat.bitcoin.v1.Query/BlockTip", &bitcointypes.QueryBlockTipRequest{}, &resp); err != nil {
		return 0, err
	}
	return resp.Height, nil
}
