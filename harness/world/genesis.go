package world

import (
	"encoding/json"
	"time"

	"cosmossdk.io/math"
	cmtproto "github.com/cometbft/cometbft/proto/tendermint/types"
	"github.com/cosmos/cosmos-sdk/codec"
	sdk "github.com/cosmos/cosmos-sdk/types"
	authtypes "github.com/cosmos/cosmos-sdk/x/auth/types"
	bitcointypes "github.com/goatnetwork/goat/x/bitcoin/types"
	goattypes "github.com/goatnetwork/goat/x/goat/types"
	lockingtypes "github.com/goatnetwork/goat/x/locking/types"
	relayertypes "github.com/goatnetwork/goat/x/relayer/types"
)

// ValidatorSpec describes one genesis validator (key = validator domain, Idx).
type ValidatorSpec struct {
	Idx     int
	Locking sdk.Coins
	Power   uint64
	Status  lockingtypes.ValidatorStatus
}

type TokenSpec struct {
	Denom     string
	Weight    uint64
	Threshold math.Int
}

// GenesisSpec is the data-only description of a chain configuration.
type GenesisSpec struct {
	ChainID       string
	InitialHeight int64
	Time          time.Time

	Validators    []ValidatorSpec
	Tokens        []TokenSpec
	LockingParams lockingtypes.Params
	Remain        math.Int // reward pool "remain"

	// relayer group: member i has tx key (DomRelayer,i) and BLS key (DomRelayer,i);
	// member 0 is the proposer, members 1..RelayerVoters are the voters.
	RelayerVoters  int
	RelayerParams  relayertypes.Params
	Epoch          uint64
	Sequence       uint64
	ProposerAccept bool
	LastElected    time.Time

	BtcParams   bitcointypes.Params
	BtcKeys     []BtcKey // registered relayer bitcoin keys; the last one is current
	BtcTip      uint64
	BtcHashes   [][]byte // hashes for heights tip, tip-1, ...
	BtcQueueNum uint64   // EthTxQueue.BlockNumber (heights <= this are already handed over)

	ExtraAccounts []Account // further auth accounts (with pubkeys)

	EvidenceMaxAgeBlocks   int64
	EvidenceMaxAgeDuration time.Duration
}

const DefaultChainID = "goat-verif-1"

// GenesisTime is the fixed genesis time of all simulated chains.
var GenesisTime = time.Date(2025, 1, 1, 0, 0, 0, 0, time.UTC)

var Btc18 = math.NewIntFromUint64(1e18)

// DefaultSpec returns a small, valid configuration: nv validators with equal
// stake, a relayer group with nvoters voters, one ECDSA bitcoin key.
func DefaultSpec(nv, nvoters int) GenesisSpec {
	lp := lockingtypes.DefaultParams()
	lp.UnlockDuration = 20 * time.Second
	lp.ExitingDuration = 60 * time.Second
	lp.DowntimeJailDuration = time.Minute
	lp.MaxValidators = 4
	lp.SignedBlocksWindow = 6
	lp.MaxMissedPerWindow = 3
	lp.HalvingInterval = 10
	lp.InitialBlockReward = 1_000_000_000
	s := GenesisSpec{
		ChainID:                DefaultChainID,
		InitialHeight:          1,
		Time:                   GenesisTime,
		Tokens:                 []TokenSpec{{Denom: "btc", Weight: 10, Threshold: Btc18}},
		LockingParams:          lp,
		Remain:                 math.NewIntFromUint64(1_000_000_000_000),
		RelayerVoters:          nvoters,
		RelayerParams:          relayertypes.Params{ElectingPeriod: 10 * time.Minute, AcceptProposerTimeout: time.Minute},
		ProposerAccept:         true,
		LastElected:            GenesisTime,
		BtcParams:              bitcointypes.DefaultParams(),
		BtcKeys:                []BtcKey{NewBtcKey(0, false)},
		BtcTip:                 100,
		BtcHashes:              [][]byte{sha256sum([]byte("btc-genesis-tip"))},
		BtcQueueNum:            100,
		EvidenceMaxAgeBlocks:   8,
		EvidenceMaxAgeDuration: 40 * time.Second,
	}
	for i := 0; i < nv; i++ {
		s.Validators = append(s.Validators, ValidatorSpec{
			Idx: i, Locking: sdk.NewCoins(sdk.NewCoin("btc", Btc18.MulRaw(2))), Power: 20, Status: lockingtypes.Active,
		})
	}
	return s
}

// RelayerMember returns the tx account and BLS key of relayer member i.
func RelayerMember(i int) (Account, BLSKey) {
	return NewAccount(DomRelayer, i), NewBLSKey(DomRelayer, i)
}

// AppState renders the spec into the application's genesis app state.
func (s GenesisSpec) AppState(cdc codec.Codec, def map[string]json.RawMessage) (json.RawMessage, error) {
	state := map[string]json.RawMessage{}
	for k, v := range def {
		state[k] = v
	}

	// auth: every validator, relayer member and extra account, with pubkeys
	var accs []authtypes.GenesisAccount
	seen := map[string]bool{}
	var num uint64
	add := func(a Account) {
		if seen[string(a.Addr())] {
			return
		}
		seen[string(a.Addr())] = true
		ba := authtypes.NewBaseAccount(a.Addr(), a.PubKey(), num, 0)
		num++
		accs = append(accs, ba)
	}
	for _, v := range s.Validators {
		add(NewAccount(DomValidator, v.Idx))
	}
	for i := 0; i <= s.RelayerVoters; i++ {
		add(NewAccount(DomRelayer, i))
	}
	for _, a := range s.ExtraAccounts {
		add(a)
	}
	authGen := authtypes.NewGenesisState(authtypes.DefaultParams(), accs)
	state[authtypes.ModuleName] = cdc.MustMarshalJSON(authGen)

	// relayer
	rg := relayertypes.GenesisState{
		Params: s.RelayerParams,
		Relayer: &relayertypes.Relayer{
			Epoch: s.Epoch, Proposer: NewAccount(DomRelayer, 0).Bech32(),
			LastElected: s.LastElected, ProposerAccepted: s.ProposerAccept,
		},
		Sequence: s.Sequence,
		Randao:   sha256sum([]byte("randao-genesis")),
	}
	for i := 0; i <= s.RelayerVoters; i++ {
		acc, bls := RelayerMember(i)
		if i > 0 {
			rg.Relayer.Voters = append(rg.Relayer.Voters, acc.Bech32())
		}
		rg.Voters = append(rg.Voters, relayertypes.Voter{Address: acc.Addr(), VoteKey: bls.PK, Status: relayertypes.VOTER_STATUS_ACTIVATED})
	}
	for _, k := range s.BtcKeys {
		rg.Pubkeys = append(rg.Pubkeys, k.Public())
	}
	state[relayertypes.ModuleName] = cdc.MustMarshalJSON(&rg)

	// bitcoin
	bg := bitcointypes.GenesisState{
		Params:      s.BtcParams,
		BlockTip:    s.BtcTip,
		BlockHashes: s.BtcHashes,
		EthTxQueue:  bitcointypes.EthTxQueue{BlockNumber: s.BtcQueueNum},
		Pubkey:      s.BtcKeys[len(s.BtcKeys)-1].Public(),
	}
	state[bitcointypes.ModuleName] = cdc.MustMarshalJSON(&bg)

	// locking
	lg := lockingtypes.GenesisState{
		Params:     s.LockingParams,
		Slashed:    sdk.NewCoins(),
		RewardPool: lockingtypes.RewardPool{Goat: math.ZeroInt(), Gas: math.ZeroInt(), Remain: s.Remain},
	}
	for _, v := range s.Validators {
		lg.Validators = append(lg.Validators, lockingtypes.Validator{
			Pubkey: NewAccount(DomValidator, v.Idx).PubKey().Key, Power: v.Power, Locking: v.Locking,
			Reward: math.ZeroInt(), GasReward: math.ZeroInt(), Status: v.Status,
		})
	}
	for _, t := range s.Tokens {
		lg.Tokens = append(lg.Tokens, &lockingtypes.TokenGenesis{Denom: t.Denom, Token: lockingtypes.Token{Weight: t.Weight, Threshold: t.Threshold}})
	}
	state[lockingtypes.ModuleName] = cdc.MustMarshalJSON(&lg)

	// goat
	gg := goattypes.GenesisState{
		EthBlock: goattypes.ExecutionPayload{
			ParentHash: make([]byte, 32), FeeRecipient: make([]byte, 20), StateRoot: make([]byte, 32),
			ReceiptsRoot: make([]byte, 32), LogsBloom: make([]byte, 256), PrevRandao: make([]byte, 32),
			GasLimit: 30_000_000, Timestamp: uint64(s.Time.Unix()), ExtraData: make([]byte, 33),
			BaseFeePerGas: math.NewInt(1_000_000_000), BlockHash: GenesisELHash[:], BeaconRoot: make([]byte, 32),
		},
		BeaconRoot: make([]byte, 32),
	}
	state[goattypes.ModuleName] = cdc.MustMarshalJSON(&gg)

	return json.Marshal(state)
}

// ConsensusParams returns the consensus parameters of the spec.
func (s GenesisSpec) ConsensusParams() *cmtproto.ConsensusParams {
	return &cmtproto.ConsensusParams{
		Block:     &cmtproto.BlockParams{MaxBytes: 6348800, MaxGas: -1},
		Evidence:  &cmtproto.EvidenceParams{MaxAgeNumBlocks: s.EvidenceMaxAgeBlocks, MaxAgeDuration: s.EvidenceMaxAgeDuration, MaxBytes: 1048576},
		Validator: &cmtproto.ValidatorParams{PubKeyTypes: []string{"secp256k1"}},
		Version:   &cmtproto.VersionParams{},
		Abci:      &cmtproto.ABCIParams{},
	}
}
