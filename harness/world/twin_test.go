package world

import (
	"bytes"
	"testing"
	"time"
)

// The in-place twin execution must be invisible: a chain that uses it ends up
// with the same app hashes as one that does not.
func TestTwinIsTransparent(t *testing.T) {
	a, err := NewSim(DefaultSpec(3, 3))
	if err != nil {
		t.Fatal(err)
	}
	defer a.Close()
	b, err := NewSim(DefaultSpec(3, 3))
	if err != nil {
		t.Fatal(err)
	}
	defer b.Close()
	for i := 0; i < 12; i++ {
		ra, err := a.Step(StepOpts{DT: 5 * time.Second, Proposer: -1})
		if err != nil {
			t.Fatal(err)
		}
		var hb []byte
		if i >= 2 && i%2 == 0 {
			blk, txs, err := b.Begin(StepOpts{DT: 5 * time.Second, Proposer: -1})
			if err != nil {
				t.Fatal(err)
			}
			tw, err := b.ExecTwin(blk, txs, txs)
			if err != nil {
				t.Fatal(err)
			}
			if tw.DumpWith.Hash() != tw.DumpWithout.Hash() {
				t.Fatalf("block %d: identical executions differ: %v", i, tw.DumpWith.Diff(tw.DumpWithout))
			}
			if !bytes.Equal(tw.With.AppHash, tw.Without.AppHash) {
				t.Fatalf("block %d: app hash differs between identical executions", i)
			}
			hb = tw.With.AppHash
		} else {
			rb, err := b.Step(StepOpts{DT: 5 * time.Second, Proposer: -1})
			if err != nil {
				t.Fatal(err)
			}
			hb = rb.Resp.AppHash
		}
		if !bytes.Equal(ra.Resp.AppHash, hb) {
			t.Fatalf("block %d: twin chain diverged from plain chain", i)
		}
	}
}
