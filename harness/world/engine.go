package world

import (
	"context"
	"crypto/sha256"
	"encoding/binary"
	"errors"
	"fmt"
	"math/big"
	"net"
	"os"
	"path/filepath"
	"sync"
	"sync/atomic"
	"time"

	"github.com/ethereum/go-ethereum/beacon/engine"
	"github.com/ethereum/go-ethereum/common"
	"github.com/ethereum/go-ethereum/common/hexutil"
	"github.com/ethereum/go-ethereum/core/types/goattypes"
	"github.com/ethereum/go-ethereum/params"
	"github.com/ethereum/go-ethereum/rpc"
)

// FaultKind is what the fake execution layer does instead of answering honestly.
type FaultKind int

const (
	FaultNone FaultKind = iota
	FaultRPCError
	FaultInvalid
	FaultSyncing
	FaultAccepted
	FaultNilPayloadID // forkchoiceUpdated with attributes only
	FaultStall        // sleep beyond the caller's deadline, then answer honestly
)

func (f FaultKind) String() string {
	return [...]string{"none", "rpc-error", "INVALID", "SYNCING", "ACCEPTED", "nil-payload-id", "stall"}[f]
}

// Fault fires on the Nth (0-based) call of Method counted since ArmFaults.
type Fault struct {
	Method string    `json:"method"` // "fcu", "getPayload", "newPayload"
	Nth    int       `json:"nth"`
	Kind   FaultKind `json:"kind"`
}

// Call is one entry of the engine call log.
type Call struct {
	Method    string
	Head      common.Hash
	Safe      common.Hash
	Finalized common.Hash
	HasAttrs  bool
	GoatTxs   [][]byte
	FeeRecip  common.Address
	Beacon    common.Hash
	Number    uint64
	Hash      common.Hash // payload hash for newPayload / getPayload
	Result    string
	Fault     FaultKind
}

func (c Call) String() string {
	switch c.Method {
	case "fcu":
		return fmt.Sprintf("fcu(head=%x safe=%x fin=%x attrs=%v goatTxs=%d)=%s", c.Head[:4], c.Safe[:4], c.Finalized[:4], c.HasAttrs, len(c.GoatTxs), c.Result)
	case "newPayload":
		return fmt.Sprintf("newPayload(#%d %x)=%s", c.Number, c.Hash[:4], c.Result)
	}
	return fmt.Sprintf("%s(%x)=%s", c.Method, c.Hash[:4], c.Result)
}

// BuildPlan tells the fake EL what to put into the next payload it builds.
type BuildPlan struct {
	UserTxs   [][]byte // after the system txs
	Requests  [][]byte // typed request lists besides the gas request
	GasAmount *big.Int // gas revenue (nil = 0)
	GasCount  int      // number of gas requests; 0 means the honest 1; -1 means none
	BlobGas   uint64
	Timestamp uint64 // 0: use the attribute's timestamp
}

type elBlock struct {
	Number uint64
	Parent common.Hash
}

// Engine is the scripted fake execution layer.
type Engine struct {
	mu       sync.Mutex
	blocks   map[common.Hash]elBlock
	payloads map[engine.PayloadID]*engine.ExecutionPayloadEnvelope
	Head     common.Hash
	Safe     common.Hash
	Final    common.Hash
	log      []Call
	faults   []Fault
	counts   map[string]int
	Plan     BuildPlan
	pidSeq   uint64

	path string
	ln   net.Listener
	srv  *rpc.Server
}

var sockSeq atomic.Uint64

// WorkDir is where scratch files (unix sockets, on-disk DBs) go.
func WorkDir() string {
	d := os.Getenv("VERIF_WORK")
	if d == "" {
		d = "/verif/.work"
	}
	return d
}

// GenesisELBlock is the execution block the consensus genesis points at.
var GenesisELHash = common.BytesToHash(sha256sum([]byte("goat-verif/el-genesis")))

func sha256sum(b ...[]byte) []byte {
	h := sha256.New()
	for _, x := range b {
		h.Write(x)
	}
	return h.Sum(nil)
}

// NewEngine starts a fake EL on a fresh unix socket.
func NewEngine() *Engine {
	e := &Engine{
		blocks:   map[common.Hash]elBlock{GenesisELHash: {Number: 0}},
		payloads: map[engine.PayloadID]*engine.ExecutionPayloadEnvelope{},
		counts:   map[string]int{},
		Head:     GenesisELHash,
	}
	dir := filepath.Join(WorkDir(), "s")
	if err := os.MkdirAll(dir, 0o755); err != nil {
		panic(err)
	}
	e.path = filepath.Join(dir, fmt.Sprintf("%d-%d.sock", os.Getpid(), sockSeq.Add(1)))
	_ = os.Remove(e.path)
	ln, srv, err := rpc.StartIPCEndpoint(e.path, []rpc.API{{Namespace: "engine", Service: &engineAPI{e}}})
	if err != nil {
		panic(fmt.Sprintf("start ipc %s: %v", e.path, err))
	}
	e.ln, e.srv = ln, srv
	return e
}

func (e *Engine) Path() string { return e.path }

func (e *Engine) Close() {
	if e.srv != nil {
		e.srv.Stop()
	}
	if e.ln != nil {
		e.ln.Close()
	}
	_ = os.Remove(e.path)
}

// ArmFaults installs a fault plan and resets the per-method call counters.
func (e *Engine) ArmFaults(f []Fault) {
	e.mu.Lock()
	defer e.mu.Unlock()
	e.faults = append([]Fault(nil), f...)
	e.counts = map[string]int{}
}

// TakeLog returns and clears the call log.
func (e *Engine) TakeLog() []Call {
	e.mu.Lock()
	defer e.mu.Unlock()
	l := e.log
	e.log = nil
	return l
}

func (e *Engine) SetPlan(p BuildPlan) {
	e.mu.Lock()
	defer e.mu.Unlock()
	e.Plan = p
}

func (e *Engine) HeadInfo() (head, safe, final common.Hash) {
	e.mu.Lock()
	defer e.mu.Unlock()
	return e.Head, e.Safe, e.Final
}

// nextFault must be called with the lock held.
func (e *Engine) nextFault(method string) FaultKind {
	n := e.counts[method]
	e.counts[method] = n + 1
	for _, f := range e.faults {
		if f.Method == method && f.Nth == n {
			return f.Kind
		}
	}
	return FaultNone
}

// BlockHashOf computes the fake EL's block hash; it binds every field the
// consensus layer forwards so that any tampering is an INVALID payload.
func BlockHashOf(d *engine.ExecutableData, beacon common.Hash, requests [][]byte) common.Hash {
	h := sha256.New()
	var u [8]byte
	put := func(v uint64) { binary.LittleEndian.PutUint64(u[:], v); h.Write(u[:]) }
	h.Write(d.ParentHash[:])
	h.Write(d.FeeRecipient[:])
	h.Write(d.StateRoot[:])
	h.Write(d.ReceiptsRoot[:])
	h.Write(d.Random[:])
	put(d.Number)
	put(d.GasLimit)
	put(d.GasUsed)
	put(d.Timestamp)
	put(uint64(len(d.ExtraData)))
	h.Write(d.ExtraData)
	if d.BaseFeePerGas != nil {
		h.Write(d.BaseFeePerGas.Bytes())
	}
	put(uint64(len(d.Transactions)))
	for _, tx := range d.Transactions {
		put(uint64(len(tx)))
		h.Write(tx)
	}
	if d.BlobGasUsed != nil {
		put(*d.BlobGasUsed)
	}
	if d.ExcessBlobGas != nil {
		put(*d.ExcessBlobGas)
	}
	h.Write(beacon[:])
	put(uint64(len(requests)))
	for _, r := range requests {
		put(uint64(len(r)))
		h.Write(r)
	}
	return common.BytesToHash(h.Sum(nil))
}

// BuildAttrs are the inputs of payload building (what forkchoiceUpdated carries).
type BuildAttrs struct {
	Parent       common.Hash
	Timestamp    uint64
	Random       common.Hash
	FeeRecipient common.Address
	Beacon       common.Hash
	GoatTxs      [][]byte
}

// Build constructs a payload the way the fake EL does for forkchoiceUpdated
// with attributes.  It is also used directly (no RPC) by harness-built proposals.
func (e *Engine) Build(a BuildAttrs, plan BuildPlan) (*engine.ExecutionPayloadEnvelope, error) {
	e.mu.Lock()
	parent, ok := e.blocks[a.Parent]
	e.mu.Unlock()
	if !ok {
		return nil, errors.New("unknown parent")
	}
	return BuildPayload(parent.Number+1, a, plan), nil
}

// BuildPayload is the pure payload constructor.
func BuildPayload(number uint64, a BuildAttrs, plan BuildPlan) *engine.ExecutionPayloadEnvelope {
	txs := make([][]byte, 0, len(a.GoatTxs)+len(plan.UserTxs))
	txs = append(txs, a.GoatTxs...)
	txs = append(txs, plan.UserTxs...)
	extra := make([]byte, params.GoatHeaderExtraLengthV0)
	extra[0] = byte(len(a.GoatTxs))
	copy(extra[1:], sha256sum(txs...))

	gasAmt := plan.GasAmount
	if gasAmt == nil {
		gasAmt = new(big.Int)
	}
	var reqs [][]byte
	gasCount := plan.GasCount
	if gasCount == 0 {
		gasCount = 1
	}
	if gasCount > 0 {
		lr := goattypes.LockingRequests{}
		for i := 0; i < gasCount; i++ {
			lr.Gas = append(lr.Gas, &goattypes.GasRequest{Height: number, Amount: new(big.Int).Set(gasAmt)})
		}
		reqs = append(reqs, lr.Encode()...)
	}
	reqs = append(reqs, plan.Requests...)

	ts := a.Timestamp
	if plan.Timestamp != 0 {
		ts = plan.Timestamp
	}
	blob, excess := plan.BlobGas, uint64(0)
	d := &engine.ExecutableData{
		ParentHash:    a.Parent,
		FeeRecipient:  a.FeeRecipient,
		StateRoot:     common.BytesToHash(sha256sum([]byte("state"), a.Parent[:])),
		ReceiptsRoot:  common.BytesToHash(sha256sum([]byte("receipts"), a.Parent[:])),
		LogsBloom:     make([]byte, 256),
		Random:        a.Random,
		Number:        number,
		GasLimit:      30_000_000,
		GasUsed:       21000 * uint64(len(txs)),
		Timestamp:     ts,
		ExtraData:     extra,
		BaseFeePerGas: big.NewInt(1_000_000_000),
		Transactions:  txs,
		BlobGasUsed:   &blob,
		ExcessBlobGas: &excess,
	}
	d.BlockHash = BlockHashOf(d, a.Beacon, reqs)
	return &engine.ExecutionPayloadEnvelope{ExecutionPayload: d, BlockValue: big.NewInt(1), Requests: reqs}
}

// Accept registers a block as known (used when a harness-built payload skips
// ProcessProposal; the real EL learns blocks through newPayload).
func (e *Engine) knows(h common.Hash) bool {
	e.mu.Lock()
	defer e.mu.Unlock()
	_, ok := e.blocks[h]
	return ok
}

type engineAPI struct{ e *Engine }

func (api *engineAPI) GetChainConfig() *params.ChainConfig {
	return &params.ChainConfig{ChainID: big.NewInt(48815), Goat: &params.GoatConfig{}}
}

func (api *engineAPI) ExchangeCapabilities(caps []string) []string { return caps }

func stall(ctx context.Context) {
	select {
	case <-ctx.Done():
	case <-time.After(1500 * time.Millisecond):
	}
}

func (api *engineAPI) ForkchoiceUpdatedV3(ctx context.Context, st engine.ForkchoiceStateV1, attrs *engine.PayloadAttributes) (engine.ForkChoiceResponse, error) {
	e := api.e
	e.mu.Lock()
	fault := e.nextFault("fcu")
	call := Call{Method: "fcu", Head: st.HeadBlockHash, Safe: st.SafeBlockHash, Finalized: st.FinalizedBlockHash, HasAttrs: attrs != nil, Fault: fault}
	if attrs != nil {
		call.GoatTxs = attrs.GoatTxs
		call.FeeRecip = attrs.SuggestedFeeRecipient
		if attrs.BeaconRoot != nil {
			call.Beacon = *attrs.BeaconRoot
		}
	}
	finish := func(res string) {
		call.Result = res
		e.log = append(e.log, call)
		e.mu.Unlock()
	}
	status := func(s string) engine.ForkChoiceResponse {
		return engine.ForkChoiceResponse{PayloadStatus: engine.PayloadStatusV1{Status: s}}
	}
	switch fault {
	case FaultRPCError:
		finish("error")
		return engine.ForkChoiceResponse{}, errors.New("injected engine failure")
	case FaultInvalid:
		finish(engine.INVALID)
		msg := "injected invalid"
		r := status(engine.INVALID)
		r.PayloadStatus.ValidationError = &msg
		return r, nil
	case FaultSyncing:
		finish(engine.SYNCING)
		return status(engine.SYNCING), nil
	case FaultAccepted:
		finish(engine.ACCEPTED)
		return status(engine.ACCEPTED), nil
	case FaultStall:
		e.mu.Unlock()
		stall(ctx)
		e.mu.Lock()
	}
	blk, ok := e.blocks[st.HeadBlockHash]
	if !ok {
		finish(engine.SYNCING)
		return status(engine.SYNCING), nil
	}
	if attrs == nil {
		// a plain head update
		e.Head, e.Safe, e.Final = st.HeadBlockHash, st.SafeBlockHash, st.FinalizedBlockHash
		finish(engine.VALID)
		return status(engine.VALID), nil
	}
	if fault == FaultNilPayloadID {
		finish("VALID/nil-id")
		return status(engine.VALID), nil
	}
	a := BuildAttrs{Parent: st.HeadBlockHash, Timestamp: attrs.Timestamp, Random: attrs.Random,
		FeeRecipient: attrs.SuggestedFeeRecipient, GoatTxs: attrs.GoatTxs}
	if attrs.BeaconRoot != nil {
		a.Beacon = *attrs.BeaconRoot
	}
	env := BuildPayload(blk.Number+1, a, e.Plan)
	e.pidSeq++
	var id engine.PayloadID
	binary.BigEndian.PutUint64(id[:], e.pidSeq)
	e.payloads[id] = env
	call.Hash = env.ExecutionPayload.BlockHash
	call.Number = env.ExecutionPayload.Number
	finish(engine.VALID)
	r := status(engine.VALID)
	r.PayloadID = &id
	return r, nil
}

func (api *engineAPI) GetPayloadV4(ctx context.Context, id engine.PayloadID) (*engine.ExecutionPayloadEnvelope, error) {
	e := api.e
	e.mu.Lock()
	fault := e.nextFault("getPayload")
	call := Call{Method: "getPayload", Fault: fault}
	if fault == FaultStall {
		e.mu.Unlock()
		stall(ctx)
		e.mu.Lock()
	}
	env, ok := e.payloads[id]
	if fault == FaultRPCError || !ok || fault == FaultInvalid || fault == FaultSyncing || fault == FaultAccepted {
		call.Result = "error"
		e.log = append(e.log, call)
		e.mu.Unlock()
		return nil, errors.New("unknown payload")
	}
	call.Hash = env.ExecutionPayload.BlockHash
	call.Number = env.ExecutionPayload.Number
	call.Result = "ok"
	e.log = append(e.log, call)
	e.mu.Unlock()
	return env, nil
}

func (api *engineAPI) NewPayloadV4(ctx context.Context, d engine.ExecutableData, blobHashes []common.Hash, beacon *common.Hash, reqs []hexutil.Bytes) (engine.PayloadStatusV1, error) {
	e := api.e
	e.mu.Lock()
	fault := e.nextFault("newPayload")
	call := Call{Method: "newPayload", Number: d.Number, Hash: d.BlockHash, Fault: fault}
	if beacon != nil {
		call.Beacon = *beacon
	}
	finish := func(res string) {
		call.Result = res
		e.log = append(e.log, call)
		e.mu.Unlock()
	}
	switch fault {
	case FaultRPCError:
		finish("error")
		return engine.PayloadStatusV1{}, errors.New("injected engine failure")
	case FaultInvalid:
		finish(engine.INVALID)
		msg := "injected invalid"
		return engine.PayloadStatusV1{Status: engine.INVALID, ValidationError: &msg}, nil
	case FaultSyncing:
		finish(engine.SYNCING)
		return engine.PayloadStatusV1{Status: engine.SYNCING}, nil
	case FaultAccepted:
		finish(engine.ACCEPTED)
		return engine.PayloadStatusV1{Status: engine.ACCEPTED}, nil
	case FaultStall:
		e.mu.Unlock()
		stall(ctx)
		e.mu.Lock()
	}
	raw := make([][]byte, len(reqs))
	for i := range reqs {
		raw[i] = reqs[i]
	}
	var b common.Hash
	if beacon != nil {
		b = *beacon
	}
	// like geth (ExecutableDataToBlock), the claimed hash is checked against the content first; only then is a
	// block that is already known answered VALID without re-execution
	if got := BlockHashOf(&d, b, raw); got != d.BlockHash && d.BlockHash != GenesisELHash {
		msg := "blockhash mismatch"
		finish(engine.INVALID)
		return engine.PayloadStatusV1{Status: engine.INVALID, ValidationError: &msg}, nil
	}
	if _, ok := e.blocks[d.BlockHash]; ok {
		finish(engine.VALID)
		return engine.PayloadStatusV1{Status: engine.VALID, LatestValidHash: &d.BlockHash}, nil
	}
	parent, ok := e.blocks[d.ParentHash]
	if !ok {
		finish(engine.SYNCING)
		return engine.PayloadStatusV1{Status: engine.SYNCING}, nil
	}
	if d.Number != parent.Number+1 {
		msg := "invalid number"
		finish(engine.INVALID)
		return engine.PayloadStatusV1{Status: engine.INVALID, ValidationError: &msg}, nil
	}
	if len(d.ExtraData) != params.GoatHeaderExtraLengthV0 || int(d.ExtraData[0]) > len(d.Transactions) {
		msg := "invalid extra"
		finish(engine.INVALID)
		return engine.PayloadStatusV1{Status: engine.INVALID, ValidationError: &msg}, nil
	}
	e.blocks[d.BlockHash] = elBlock{Number: d.Number, Parent: d.ParentHash}
	finish(engine.VALID)
	return engine.PayloadStatusV1{Status: engine.VALID, LatestValidHash: &d.BlockHash}, nil
}
