#!/bin/bash
# seed sweep of every quick check; prints only non-OK results (used to shake out false alarms)
from=${1:-11}; to=${2:-30}
cd "$(dirname "$0")"
./check setup
for seed in $(seq $from $to); do
  for p in $(python3 -c "import json;print(' '.join(c['property_id'] for c in json.load(open('MANIFEST.json'))['checks']))"); do
    out=$(VERIF_SEED=$seed ./check $p 2>&1); rc=$?
    if [ $rc -ne 0 ]; then echo "seed=$seed $p rc=$rc"; echo "$out" | grep -E "violation:|VIOLATION|INCONCLUSIVE" | cut -c1-600 | head -6; fi
  done
  echo "seed $seed done $(date +%H:%M:%S)"
done
