#!/usr/bin/env python3
# Regenerates MANIFEST.json from the table below (the single place where claims are recorded).
import json
props = [json.loads(l) for l in open('/verif/properties.jsonl')]
base = json.load(open('/root/.vp/BASELINE.json'))['cmd']
CHECKS = {
 "C01": dict(cat="exploration",
   text="Generated search over relayer group configurations and vote constructions (honest at/above threshold, one below, phantom bitmap marks, signer set != marks, wrong chain/sequence/epoch/method/proposer, payload changed after signing, malformed) against a reference quorum predicate written from the statement; both directions are checked (must-reject not accepted, honest quorums accepted), at handler level for volume and as real transactions through FinalizeBlock with an in-place twin execution for 'changes no state at all'; Threshold() is compared exhaustively with the integer formula for n<=4096. Exploration is the appropriate level: the input space (bitmaps x signer sets x contexts) is huge but its interesting classes are constructible.",
   note="BLS12-381 (blst) soundness assumed: FastAggregateVerify over distinct proof-of-possession keys accepts iff the signer multiset equals the key list; bitmaps longer than 32 bytes around an otherwise genuine quorum are treated as unspecified",
   tech="property-based testing (rapid): class-constructed votes vs reference quorum predicate; twin-execution state comparison; exhaustive threshold enumeration"),
 "C04": dict(cat="exploration",
   text="Generated search (rapid) over trees x claimed positions x path/size mutations with three oracles: differential against a reference written from the statement, tree-occupancy soundness, completeness; plus a bounded exhaustive enumeration of all small trees. Exploration is the right level: the function is pure and cheap, so hundreds of thousands of structured cases plus a complete small scope give strong evidence; no proof is attempted.",
   note="crypto/sha256 is trusted; the reference fold and the occupancy map are 15-line functions in the harness",
   tech="property-based testing (rapid): differential vs reference model + tree-occupancy oracle; bounded exhaustive enumeration"),
 "C03": dict(cat="exploration",
   text="Generated search over bridge parameter sets, registered keys, model Bitcoin blocks (tree sizes 1..33, deposit at any position incl. coinbase, depth 0..129 below the voted tip, v0/v1, boundary values) whose hashes are voted through genesis, and deposit attempts mutated one field at a time (19 mutation kinds) - decided by a deposit oracle computed from the model (accept / reject / unspecified), plus receipt identity (amount+tax=value, integer tax formula, tax<value), second-credit rejection and HasDeposited; a second property runs histories of multi-item batches as real transactions with several batches per block and restarts and compares every deposit system transaction later handed to the execution layer with the model's credited list (each once, in order). Exploration: the space is a product of layouts, positions, proofs and parameters; constructing each class reaches the logic that random bytes would not.",
   note="Bitcoin output values are restricted to [0, 21e14]; mirror positions of a duplicated last Merkle leaf are unspecified; a 100% tax rate is refused by genesis since fix a5d926e (such cases are then vacuous and counted as config-rejected-by-genesis)",
   tech="property-based testing (rapid): mutation catalogue vs model-derived deposit oracle; stateful batch histories vs credited-set model"),
 "C17": dict(cat="exploration",
   text="Round trip handout -> independent Bech32/Bech32m decoder -> script compared with a script derived from the specification -> verifier, with exclusivity checks (other key, one-bit-different EVM address, other magic, other key type, other version) for every key type x version x network; withdrawal addresses are produced by independent Base58Check/Bech32/Bech32m encoders for all standard types and networks and must decode to exactly the template script, while pay-to-pubkey strings, other-prefix addresses and mutated strings must be rejected. Exploration over random keys/addresses with a differential oracle is the natural level for codec agreement.",
   note="the independent codecs in harness/props/addr_test.go are trusted (written from BIP-173/350 and Base58Check); testnet3/signet/regtest share base58 prefixes, so 'foreign' means prefix inequality; non-standard witness programs are unspecified",
   tech="property-based testing (rapid): generator<->verifier round trip and differential against independent address codecs"),
 "C10": dict(cat="exploration",
   text="The admission policy is a finite decision table, so the single-message matrix (every message type registered in the live interface registry x mode x signer class x memo x timeout x signature fault) is enumerated completely in the thorough tier (a fixed covering subset in the quick tier) against a predicate written from the statement, with three observables: CheckTx code, ProcessProposal status and - inside a finalised block - whether the signer's account sequence advanced (the ante chain's writes persist even when the message then fails), plus twin-execution equality of the module stores for everything not admitted and for every non-bridge message; rapid adds multi-message, multi-signer and prepare-mode combinations. Generic message instances are built by protobuf reflection from the registry, so a dependency upgrade that registers more types is covered automatically.",
   note="exact timeout boundaries are asserted in finalise/process mode only (CheckTx runs at the previous height); recheck is exercised only on transactions CheckTx admitted (as CometBFT does); right after a restart the SDK's check state has height 0 until the first commit, so the harness commits one block after every restart",
   tech="exhaustive decision-table enumeration + property-based testing (rapid) of multi-message combinations vs admission predicate; sequence-advance and twin-execution observables"),
 "C20": dict(cat="exploration",
   text="Stateful generated histories of tax / confirmation / minimum-deposit requests with boundary-biased 64-bit values through real execution blocks; after every block the queried parameters must satisfy the bounds and equal an apply-or-ignore reference model, and boundary-valued deposits are verified against the then-current parameters by the registered handler (acceptance iff value >= minimum, amount+tax=value, tax<value, amount>0).",
   note="the fee cap that accompanies an out-of-range rate is unspecified; deposit output values restricted to [0, 21e14]",
   tech="property-based testing (rapid): stateful parameter histories vs apply-or-ignore model + deposit consequence oracle"),
 "C11": dict(cat="exploration",
   text='Stateful model-based search: generated histories of locking requests, absences, evidence and time jumps are run through the real application; after every block the exported holdings and slashed totals are compared with an exact integer ledger (lock adds, unlock removes min(requested, held), a slash removes floor(fraction*amount) or everything if that is zero) and the conservation identity locked = held + slashed + released is recomputed per token from observed quantities only (export + completions received by the fake execution layer).',
   note="shared locking world: validator 0 is an anchor that is never unlocked, punished or absent (an empty validator set has no acceptable successor); amounts <= 1e24 and weights <= 2^20, so totals stay far below CometBFT's MaxTotalVotingPower; absences are limited to less than a third of the previous block's power, as a real commit requires; the reference model is driven by the observed result code of the execution-block message (a failed message applies none of its requests)",
   tech='property-based testing (rapid): stateful histories vs exact integer ledger; conservation identity over observed state'),
 "C12": dict(cat="exploration",
   text="Same locking world, reward clauses: the remaining grant must follow the emission schedule exactly, each voter's share of the previous block's pools must be non-negative and within 1 + pool*1e-18 of pool*power/total, shares plus carried dust must equal the pool with dust >= 0, a claim must pay exactly the accrued pair and reset it (a second claim in the same block pays zero), and granted + gas = remain + pools + accrued + claimed at every block.",
   note="shared locking world: validator 0 is an anchor that is never unlocked, punished or absent (an empty validator set has no acceptable successor); amounts <= 1e24 and weights <= 2^20, so totals stay far below CometBFT's MaxTotalVotingPower; absences are limited to less than a third of the previous block's power, as a real commit requires; the reference model is driven by the observed result code of the execution-block message (a failed message applies none of its requests)",
   tech='property-based testing (rapid): stateful histories vs exact reward ledger, emission-schedule formula and proportionality tolerance'),
 "C13": dict(cat="exploration",
   text="The consumer is the oracle: every block's validator updates are fed through a copy of CometBFT's validateValidatorUpdates and the real ValidatorSet.UpdateWithChangeSet with the H+2 pipeline; any rejection or FinalizeBlock error is a violation. The accumulated set is then compared with the exported validator records: size <= MaxValidators, members recorded active with exactly their positive power, no recorded-active outsider, no pending positive-power outsider outranking a member (power, then address).",
   note="shared locking world: validator 0 is an anchor that is never unlocked, punished or absent (an empty validator set has no acceptable successor); amounts <= 1e24 and weights <= 2^20, so totals stay far below CometBFT's MaxTotalVotingPower; absences are limited to less than a third of the previous block's power, as a real commit requires; the reference model is driven by the observed result code of the execution-block message (a failed message applies none of its requests)",
   tech='property-based testing (rapid): stateful histories; CometBFT ValidatorSet as consumer oracle + top-K predicate over observed records'),
 "C14": dict(cat="exploration",
   text='Same world with absence streaks around the window parameters and evidence ages around both limits: a reference signing-window counter and punishment model (demote + slash once + jail-until; tombstone for evidence inside either age limit; re-entry only after the jail time with every threshold met) is compared after every block with status, window counters, holdings, slashed totals, power and set membership; tombstoned validators are tracked to the end of the history under further lock/unlock/weight/threshold requests.',
   note="shared locking world: validator 0 is an anchor that is never unlocked, punished or absent (an empty validator set has no acceptable successor); amounts <= 1e24 and weights <= 2^20, so totals stay far below CometBFT's MaxTotalVotingPower; absences are limited to less than a third of the previous block's power, as a real commit requires; the reference model is driven by the observed result code of the execution-block message (a failed message applies none of its requests)",
   tech='property-based testing (rapid): stateful histories vs signing-window/punishment reference model with temporal (once / never-again) checks'),
 "C15": dict(cat="exploration",
   text='Same world biased to unlock bursts, threshold-crossing unlocks and unlocks of inactive/tombstoned validators with colliding maturities: a schedule model (maturity = request block time + unlock or exit period) must equal the exported time queue and delivery queue after every block, and every completion received by the fake execution layer must come at a block time >= its maturity, once, <= 16 per block, in (maturity, request) order, with amount min(requested, held).',
   note="shared locking world: validator 0 is an anchor that is never unlocked, punished or absent (an empty validator set has no acceptable successor); amounts <= 1e24 and weights <= 2^20, so totals stay far below CometBFT's MaxTotalVotingPower; absences are limited to less than a third of the previous block's power, as a real commit requires; the reference model is driven by the observed result code of the execution-block message (a failed message applies none of its requests)",
   tech='property-based testing (rapid): stateful histories vs maturity-schedule model and execution-layer delivery log'),
}
NA_REASON = "check not built yet in this round (planned, see DESIGN.md §5); not a statement that the technique cannot apply"
m = {
 "version": 1,
 "setup_cmd": "./check setup",
 "hooks": {"guard": "verif", "enable": "go test -tags verif in the harness module /verif/harness (replace github.com/goatnetwork/goat => /repo); no source hooks are needed", "baseline_off_cmd": base, "source_commits": [], "add_only": True},
 "engines": [{"name": "rapid-props", "path": "harness/props", "serves_properties": sorted(CHECKS), "kind_free_text": "pgregory.net/rapid v1.3.0 properties over the real application run in-process against a fake execution layer (IPC) and a CometBFT-side model; sharded over all cores by ./check"}],
 "checks": [],
 "notes": "See DESIGN.md. ./check <id> [--tier quick|thorough] [--replay file]; VERIF_SEED selects the PRNG seed; exit 2 = inconclusive (never reported as pass or violation). Repairs of genuine defects are 'fix:' commits in /repo recorded in known_findings.json.",
 "not_applicable": [],
}
for p in props:
    i = p['id']
    if i in CHECKS:
        d = CHECKS[i]
        m["checks"].append({"property_id": i, "quick_cmd": f"./check {i} --tier quick", "thorough_cmd": f"./check {i} --tier thorough",
            "evidence_file": f"/verif/evidence/{i}.json", "replay_cmd_template": f"./check {i} --replay {{path}}", "engine": "rapid-props",
            "level_claimed": {"category": d["cat"], "text": d["text"], "design_ref": f"DESIGN.md §5 {i}"}, "level_note": d["note"], "technique": d["tech"]})
    else:
        m["not_applicable"].append({"property_id": i, "reason": NA_REASON})
json.dump(m, open('/verif/MANIFEST.json', 'w'), indent=1)
print("checks:", [c["property_id"] for c in m["checks"]])
