#!/usr/bin/env python3
# validates MANIFEST.json and evidence/*.json against the given schemas (run with python3-vt)
import json, sys, glob, jsonschema
ok = True
try:
    jsonschema.validate(json.load(open('/verif/MANIFEST.json')), json.load(open('/root/.vp/MANIFEST.schema.json')))
except Exception as e:
    ok = False; print('MANIFEST', str(e)[:500])
es = json.load(open('/root/.vp/EVIDENCE.schema.json'))
for f in sorted(glob.glob('/verif/evidence/*.json')):
    try:
        jsonschema.validate(json.load(open(f)), es)
    except Exception as e:
        ok = False; print(f, str(e)[:500])
print('valid' if ok else 'INVALID')
sys.exit(0 if ok else 1)
